package main

// C15 harness: profiles survive storage round trips; the offline cache mirrors the primary.
//
// A stateful op interpreter over the REAL storage code (SaveUserProfile, LoadUserProfile,
// DeleteUserProfile, UpsertSigned, DeleteSigned, copyDBIntoSQLite) and the real mutating
// handlers.  Both databases are reopened through a wrapping database/sql driver that counts
// every SQL statement of a synchronisation (Query/Begin/Exec/Prepare/stmt.Exec/rows.Next/
// Commit, on the primary and on the cache) and fails the k-th one.  After every op a
// canonical digest (sorted rows) of user_profile and expiring_signed_user_data of both
// databases is printed.

import (
	"bytes"
	"context"
	"crypto/ecdsa"
	"crypto/elliptic"
	"crypto/rand"
	"crypto/sha256"
	"crypto/sha512"
	"crypto/x509"
	"crypto/x509/pkix"
	"database/sql"
	"database/sql/driver"
	"encoding/base64"
	"encoding/binary"
	"encoding/gob"
	"encoding/json"
	"errors"
	"fmt"
	"io"
	"math/big"
	"net/http"
	"net/http/httptest"
	"net/url"
	"os"
	"path/filepath"
	"reflect"
	"runtime"
	"sort"
	"strconv"
	"strings"
	"sync"
	"testing"
	texttemplate "text/template"
	"time"

	"github.com/Cloud-Foundations/keymaster/keymasterd/admincache"
	"github.com/Cloud-Foundations/keymaster/lib/pwauth/htpassword"
	"github.com/Cloud-Foundations/keymaster/lib/webapi/v0/proto"
	"github.com/duo-labs/webauthn/protocol"
	"github.com/duo-labs/webauthn/webauthn"
	sqlite3 "github.com/mattn/go-sqlite3"
	"github.com/pquerna/otp/totp"
	"github.com/tstranex/u2f"
)

// ---------------------------------------------------------------- wrapping driver

var errVfInjected = errors.New("vf: injected storage fault")
var errVfDown = errors.New("vf: primary database unreachable")
var errVfFlap = errors.New("vf: the database system is starting up")

// vfFaultCtl is shared by the primary ('p') and the cache ('c') wrapper.
type vfFaultCtl struct {
	mu         sync.Mutex
	armed      bool   // count events (only while a synchronisation runs)
	gid        string // goroutine running the synchronisation: stray LoadUserProfile goroutines are not counted
	n          int    // events seen since arm()
	failAt     int    // index of the event to fail, -1 = none
	commitPost bool   // a failed COMMIT is applied first, then reported as failed
	hit        bool   // the fault was delivered
	trace      []byte // one letter per event: lower case primary, upper case cache
	down       bool   // primary: every statement fails
	downAfter  int    // primary: becomes unreachable after this many more statements (-1: never)
	readErr    bool   // primary: executing a SELECT reports an error, everything else works (flapping primary)
	pFailAt    int    // primary: only the statement with this index (counted from pN = 0) fails (-1: none)
	pN         int
	pHit       bool
	readDelay  time.Duration
}

var vfF = &vfFaultCtl{failAt: -1, downAfter: -1, pFailAt: -1}

func (f *vfFaultCtl) arm(failAt int, commitPost bool) {
	f.mu.Lock()
	f.armed, f.n, f.failAt, f.commitPost, f.hit, f.trace = true, 0, failAt, commitPost, false, nil
	f.gid = vfGoroutineID()
	f.mu.Unlock()
}

func (f *vfFaultCtl) disarm() (n int, hit bool, trace string) {
	f.mu.Lock()
	defer f.mu.Unlock()
	f.armed = false
	f.failAt = -1
	return f.n, f.hit, string(f.trace)
}

// event registers one SQL statement; a non-nil result is the error the statement must report.
func (f *vfFaultCtl) event(role byte, kind byte) error {
	f.mu.Lock()
	defer f.mu.Unlock()
	if role == 'p' {
		if f.downAfter == 0 {
			f.down, f.downAfter = true, -1
		} else if f.downAfter > 0 {
			f.downAfter--
		}
		if f.down {
			return errVfDown
		}
		if f.pFailAt >= 0 {
			k := f.pN
			f.pN++
			if k == f.pFailAt {
				f.pHit = true
				return errVfFlap
			}
		}
		if f.readErr && kind == 'q' {
			return errVfFlap
		}
	}
	if !f.armed || f.gid != vfGoroutineID() {
		return nil
	}
	k := f.n
	f.n++
	if role == 'c' {
		kind = kind - 'a' + 'A'
	}
	f.trace = append(f.trace, kind)
	if k == f.failAt {
		f.hit = true
		return errVfInjected
	}
	return nil
}

func (f *vfFaultCtl) delay(role byte) {
	f.mu.Lock()
	d := f.readDelay
	f.mu.Unlock()
	if role == 'p' && d > 0 {
		time.Sleep(d)
	}
}

func vfGoroutineID() string {
	var buf [64]byte
	n := runtime.Stack(buf[:], false)
	f := strings.Fields(string(buf[:n])) // "goroutine 123 [running]:"
	if len(f) < 2 {
		return "?"
	}
	return f[1]
}

type vfDriver struct{ role byte }

func (d *vfDriver) Open(name string) (driver.Conn, error) {
	c, err := (&sqlite3.SQLiteDriver{}).Open(name)
	if err != nil {
		return nil, err
	}
	return &vfConn{c.(*sqlite3.SQLiteConn), d.role}, nil
}

type vfConn struct {
	c    *sqlite3.SQLiteConn
	role byte
}

func (c *vfConn) Prepare(q string) (driver.Stmt, error) { return c.PrepareContext(context.Background(), q) }
func (c *vfConn) Close() error                          { return c.c.Close() }
func (c *vfConn) Begin() (driver.Tx, error) {
	return c.BeginTx(context.Background(), driver.TxOptions{})
}
func (c *vfConn) BeginTx(ctx context.Context, o driver.TxOptions) (driver.Tx, error) {
	if err := vfF.event(c.role, 'b'); err != nil {
		return nil, err
	}
	tx, err := c.c.BeginTx(ctx, o)
	if err != nil {
		return nil, err
	}
	return &vfTx{tx, c.role}, nil
}
func (c *vfConn) PrepareContext(ctx context.Context, q string) (driver.Stmt, error) {
	if err := vfF.event(c.role, 'p'); err != nil {
		return nil, err
	}
	s, err := c.c.PrepareContext(ctx, q)
	if err != nil {
		return nil, err
	}
	return &vfStmt{s.(*sqlite3.SQLiteStmt), c.role}, nil
}
func (c *vfConn) ExecContext(ctx context.Context, q string, a []driver.NamedValue) (driver.Result, error) {
	if err := vfF.event(c.role, 'e'); err != nil {
		return nil, err
	}
	return c.c.ExecContext(ctx, q, a)
}
func (c *vfConn) QueryContext(ctx context.Context, q string, a []driver.NamedValue) (driver.Rows, error) {
	if err := vfF.event(c.role, 'q'); err != nil {
		return nil, err
	}
	vfF.delay(c.role)
	r, err := c.c.QueryContext(ctx, q, a)
	if err != nil {
		return nil, err
	}
	return &vfRows{r, c.role}, nil
}

type vfTx struct {
	tx   driver.Tx
	role byte
}

func (t *vfTx) Commit() error {
	if err := vfF.event(t.role, 'c'); err != nil {
		if err == errVfInjected && vfF.commitPost {
			t.tx.Commit()
		} else {
			t.tx.Rollback()
		}
		return err
	}
	return t.tx.Commit()
}
func (t *vfTx) Rollback() error { return t.tx.Rollback() }

type vfStmt struct {
	s    *sqlite3.SQLiteStmt
	role byte
}

func (s *vfStmt) Close() error  { return s.s.Close() }
func (s *vfStmt) NumInput() int { return s.s.NumInput() }
func (s *vfStmt) Exec(a []driver.Value) (driver.Result, error) {
	return nil, errors.New("vf: legacy Exec not supported")
}
func (s *vfStmt) Query(a []driver.Value) (driver.Rows, error) {
	return nil, errors.New("vf: legacy Query not supported")
}
func (s *vfStmt) ExecContext(ctx context.Context, a []driver.NamedValue) (driver.Result, error) {
	if err := vfF.event(s.role, 'x'); err != nil {
		return nil, err
	}
	return s.s.ExecContext(ctx, a)
}
func (s *vfStmt) QueryContext(ctx context.Context, a []driver.NamedValue) (driver.Rows, error) {
	if err := vfF.event(s.role, 'q'); err != nil {
		return nil, err
	}
	vfF.delay(s.role)
	r, err := s.s.QueryContext(ctx, a)
	if err != nil {
		return nil, err
	}
	return &vfRows{r, s.role}, nil
}

type vfRows struct {
	r    driver.Rows
	role byte
}

func (r *vfRows) Columns() []string { return r.r.Columns() }
func (r *vfRows) Close() error      { return r.r.Close() }
func (r *vfRows) Next(dest []driver.Value) error {
	if err := vfF.event(r.role, 'n'); err != nil {
		return err
	}
	return r.r.Next(dest)
}

var vfRegisterOnce sync.Once

// ---------------------------------------------------------------- a virtual U2F token

type vfToken struct {
	key       *ecdsa.PrivateKey
	keyHandle []byte
	certDER   []byte
}

func vfNewToken(t *testing.T, label string) *vfToken {
	key, err := ecdsa.GenerateKey(elliptic.P256(), rand.Reader)
	if err != nil {
		t.Fatal(err)
	}
	tmpl := &x509.Certificate{SerialNumber: big.NewInt(4711), Subject: pkix.Name{CommonName: "vf token " + label},
		NotBefore: time.Unix(1600000000, 0), NotAfter: time.Unix(2600000000, 0)}
	der, err := x509.CreateCertificate(rand.Reader, tmpl, tmpl, &key.PublicKey, key)
	if err != nil {
		t.Fatal(err)
	}
	kh := sha256.Sum256([]byte("key handle of " + label))
	return &vfToken{key: key, keyHandle: kh[:], certDER: der}
}

func (tk *vfToken) pub() []byte {
	return elliptic.Marshal(elliptic.P256(), tk.key.PublicKey.X, tk.key.PublicKey.Y)
}

func vfWebsafe(b []byte) string { return base64.RawURLEncoding.EncodeToString(b) }

func (tk *vfToken) sign(parts ...[]byte) []byte {
	h := sha256.New()
	for _, p := range parts {
		h.Write(p)
	}
	sig, err := ecdsa.SignASN1(rand.Reader, tk.key, h.Sum(nil))
	if err != nil {
		panic(err)
	}
	return sig
}

// register answers a U2F registration challenge exactly like a token behind a browser would.
func (tk *vfToken) register(c *u2f.Challenge, origin string) u2f.RegisterResponse {
	cd, _ := json.Marshal(map[string]string{"typ": "navigator.id.finishEnrollment",
		"challenge": vfWebsafe(c.Challenge), "origin": origin})
	app := sha256.Sum256([]byte(c.AppID))
	chal := sha256.Sum256(cd)
	sig := tk.sign([]byte{0}, app[:], chal[:], tk.keyHandle, tk.pub())
	var raw bytes.Buffer
	raw.WriteByte(5)
	raw.Write(tk.pub())
	raw.WriteByte(byte(len(tk.keyHandle)))
	raw.Write(tk.keyHandle)
	raw.Write(tk.certDER)
	raw.Write(sig)
	return u2f.RegisterResponse{RegistrationData: vfWebsafe(raw.Bytes()), ClientData: vfWebsafe(cd)}
}

// registration runs the real u2f.Register on the token's answer.
func (tk *vfToken) registration(t *testing.T) *u2f.Registration {
	c, err := u2f.NewChallenge("https://vf.example", []string{"https://vf.example"})
	if err != nil {
		t.Fatal(err)
	}
	reg, err := u2f.Register(tk.register(c, "https://vf.example"), *c, &u2f.Config{SkipAttestationVerify: true})
	if err != nil {
		t.Fatal(err)
	}
	return reg
}

// assertion builds the body of a WebAuthn assertion (navigator.credentials.get answer) signed
// by the token for the given challenge.
func (tk *vfToken) assertion(challenge, origin, appID string, counter uint32) []byte {
	cd, _ := json.Marshal(map[string]string{"type": "webauthn.get", "challenge": challenge, "origin": origin})
	rp := sha256.Sum256([]byte(appID))
	ad := append([]byte{}, rp[:]...)
	ad = append(ad, 0x01) // user present
	var cnt [4]byte
	binary.BigEndian.PutUint32(cnt[:], counter)
	ad = append(ad, cnt[:]...)
	cdh := sha256.Sum256(cd)
	sig := tk.sign(ad, cdh[:])
	body, _ := json.Marshal(map[string]interface{}{
		"id": vfWebsafe(tk.keyHandle), "rawId": vfWebsafe(tk.keyHandle), "type": "public-key",
		"response": map[string]string{"authenticatorData": vfWebsafe(ad), "clientDataJSON": vfWebsafe(cd),
			"signature": vfWebsafe(sig), "userHandle": ""},
	})
	return body
}

// coseKey is the COSE_Key (CBOR) encoding of the token's public key, as a WebAuthn
// registration stores it: {1: 2 (EC2), 3: -7 (ES256), -1: 1 (P-256), -2: x, -3: y}.
func (tk *vfToken) coseKey() []byte {
	x := tk.key.PublicKey.X.FillBytes(make([]byte, 32))
	y := tk.key.PublicKey.Y.FillBytes(make([]byte, 32))
	b := []byte{0xa5, 0x01, 0x02, 0x03, 0x26, 0x20, 0x01, 0x21, 0x58, 0x20}
	b = append(b, x...)
	b = append(b, 0x22, 0x58, 0x20)
	return append(b, y...)
}

// ---------------------------------------------------------------- profiles with real token data

// vfMailer is the configured e-mail manager of the harness: it records, it never sends.
type vfMailer struct {
	mu   sync.Mutex
	sent int
}

func (m *vfMailer) SendMail(from string, to []string, msg []byte) error {
	m.mu.Lock()
	m.sent++
	m.mu.Unlock()
	return nil
}

func (m *vfMailer) take() int {
	m.mu.Lock()
	defer m.mu.Unlock()
	n := m.sent
	m.sent = 0
	return n
}

type vfC15 struct {
	mailer   *vfMailer
	t        *testing.T
	state    *RuntimeState
	rawP     *sql.DB // harness' own unwrapped handles (digest, restore, clock shifts)
	rawC     *sql.DB
	t0       int64
	profiles map[int]*userProfile
	tokens   map[int]*vfToken
	secrets  map[int]string // TOTP secret of profile pid
	otps     map[int]string // bootstrap OTP clear text of profile pid
}

const vfC15Origin = "https://vfhost.example"

func vfUserName(u int) string { return "user" + strconv.Itoa(u) }

// build makes (once) the profile with identifier pid.  pid selects which kinds of token data
// are present; every value is produced by the library or keymaster function that produces it
// in production (u2f.Register, encryptWithPublicKeys, u2f.NewChallenge, sha512 of an OTP ...).
func (h *vfC15) build(pid int) *userProfile {
	if p, ok := h.profiles[pid]; ok {
		return p
	}
	t := h.t
	p := &userProfile{U2fAuthData: map[int64]*u2fAuthData{}, TOTPAuthData: map[int64]*totpAuthData{}}
	p.DisplayName = "pid-" + strconv.Itoa(pid)
	kind := pid % 8
	base := time.Unix(1700000000+int64(pid)*977, 123456789).UTC()
	if kind == 1 || kind == 4 || kind == 5 || kind == 7 {
		tk := vfNewToken(t, p.DisplayName)
		h.tokens[pid] = tk
		p.U2fAuthData[base.Unix()] = &u2fAuthData{Enabled: true, CreatedAt: base, CreatorAddr: "192.0.2.7:4433",
			Counter: uint32(pid) * 1000003, Name: "yubikey/" + strconv.Itoa(pid), Registration: tk.registration(t)}
		p.UserHasRegistered2ndFactor = true
		if kind == 7 {
			tk2 := vfNewToken(t, p.DisplayName+"-second")
			p.U2fAuthData[base.Unix()+5] = &u2fAuthData{Enabled: false, CreatedAt: base.Add(5 * time.Second),
				Counter: 0xfffffffe, Name: "Registered by admin", Registration: tk2.registration(t)}
		}
	}
	if kind == 2 || kind == 4 || kind == 6 || kind == 7 {
		key, err := totp.Generate(totp.GenerateOpts{Issuer: "vfhost.example", AccountName: p.DisplayName})
		if err != nil {
			t.Fatal(err)
		}
		enc, err := h.state.encryptWithPublicKeys([]byte(key.Secret()))
		if err != nil || len(enc) == 0 {
			t.Fatalf("encryptWithPublicKeys: %v (%d)", err, len(enc))
		}
		h.secrets[pid] = key.Secret()
		p.TOTPAuthData[base.Unix()+1] = &totpAuthData{Enabled: true, CreatedAt: base.Add(time.Second),
			Name: "phone é", EncryptedSecret: enc, TOTPType: 0, ValidatorAddr: "[2001:db8::1]:1234"}
		p.LastSuccessfullTOTPCounter = 56666666 + int64(pid)
		p.UserHasRegistered2ndFactor = true
		if kind == 6 || kind == 7 {
			pend, err := h.state.encryptWithPublicKeys([]byte("JBSWY3DPEHPK3PXP"))
			if err != nil {
				t.Fatal(err)
			}
			p.PendingTOTPSecret = &pend
		}
	}
	if kind == 3 || kind == 5 || kind == 7 {
		tk := vfNewToken(t, p.DisplayName+"-webauthn")
		if _, have := h.tokens[pid]; !have {
			h.tokens[pid] = tk
		}
		p.WebauthnData = map[int64]*webauthAuthData{base.Unix() + 2: {Enabled: true, CreatedAt: base.Add(2 * time.Second),
			Name: "passkey", Credential: webauthn.Credential{ID: tk.keyHandle, PublicKey: tk.coseKey(),
				AttestationType: "packed", Authenticator: webauthn.Authenticator{
					AAGUID: []byte{0xf8, 0xa0, 0x11, 0xf3, 0x8c, 0x0a, 0x4d, 0x15, 0x80, 0x06, 0x17, 0x11, 0x1f, 0x9e, 0xdc, 0x7d},
					SignCount: 17 + uint32(pid), CloneWarning: pid%16 == 7}}}}
		p.WebauthnID = 0x8000000000000000 | uint64(pid)
		p.Username = vfUserName(pid)
		p.UserHasRegistered2ndFactor = true
		if kind == 5 || kind == 7 {
			p.WebauthnSessionData = &webauthn.SessionData{Challenge: vfWebsafe(bytes.Repeat([]byte{byte(pid)}, 32)),
				UserID: p.WebAuthnID(), AllowedCredentialIDs: [][]byte{tk.keyHandle},
				UserVerification: protocol.VerificationPreferred}
		}
	}
	if kind == 0 && pid > 0 || kind == 6 {
		otp := "bootstrap-otp-" + strconv.Itoa(pid)
		sum := sha512.Sum512([]byte(otp))
		h.otps[pid] = otp
		p.BootstrapOTP = bootstrapOTPData{ExpiresAt: time.Unix(h.t0+86400, 0), Sha512Hash: sum[:]}
	}
	if kind == 1 || kind == 7 {
		c, err := u2f.NewChallenge(u2fAppID, u2fTrustedFacets)
		if err != nil {
			t.Fatal(err)
		}
		p.RegistrationChallenge = c
	}
	h.profiles[pid] = p
	return p
}

// vfDeepEq compares two values field by field; nil and empty maps/slices are the same value
// (gob does not distinguish them), times are compared as instants.  Returns the path of the
// first difference.
func vfDeepEq(a, b reflect.Value, path string) string {
	if a.IsValid() != b.IsValid() {
		return path + ":validity"
	}
	if !a.IsValid() {
		return ""
	}
	if a.Type() != b.Type() {
		return path + ":type"
	}
	if a.Type() == reflect.TypeOf(time.Time{}) {
		if !a.Interface().(time.Time).Equal(b.Interface().(time.Time)) {
			return path + ":time"
		}
		return ""
	}
	if a.Type() == reflect.TypeOf(big.Int{}) {
		x, y := a.Interface().(big.Int), b.Interface().(big.Int)
		if x.Cmp(&y) != 0 {
			return path + ":bigint"
		}
		return ""
	}
	if a.Type() == reflect.TypeOf(x509.Certificate{}) {
		x, y := a.Interface().(x509.Certificate), b.Interface().(x509.Certificate)
		if !bytes.Equal(x.Raw, y.Raw) {
			return path + ":cert"
		}
		return ""
	}
	switch a.Kind() {
	case reflect.Ptr, reflect.Interface:
		if a.IsNil() != b.IsNil() {
			return path + ":nil"
		}
		if a.IsNil() {
			return ""
		}
		if a.Kind() == reflect.Interface && a.Elem().Kind() == reflect.Ptr && a.Elem().Pointer() == b.Elem().Pointer() {
			return "" // e.g. elliptic.P256() singleton
		}
		return vfDeepEq(a.Elem(), b.Elem(), path)
	case reflect.Struct:
		for i := 0; i < a.NumField(); i++ {
			if !a.Type().Field(i).IsExported() {
				continue
			}
			if d := vfDeepEq(a.Field(i), b.Field(i), path+"."+a.Type().Field(i).Name); d != "" {
				return d
			}
		}
		return ""
	case reflect.Map:
		if a.Len() != b.Len() {
			return path + ":maplen"
		}
		for _, k := range a.MapKeys() {
			bv := b.MapIndex(k)
			if !bv.IsValid() {
				return fmt.Sprintf("%s[%v]:missing", path, k)
			}
			if d := vfDeepEq(a.MapIndex(k), bv, fmt.Sprintf("%s[%v]", path, k)); d != "" {
				return d
			}
		}
		return ""
	case reflect.Slice, reflect.Array:
		if a.Len() != b.Len() {
			return path + ":len"
		}
		for i := 0; i < a.Len(); i++ {
			if d := vfDeepEq(a.Index(i), b.Index(i), fmt.Sprintf("%s[%d]", path, i)); d != "" {
				return d
			}
		}
		return ""
	default:
		if !reflect.DeepEqual(a.Interface(), b.Interface()) {
			return path + ":value"
		}
		return ""
	}
}

func vfProfileDiff(a, b *userProfile) string {
	return vfDeepEq(reflect.ValueOf(a), reflect.ValueOf(b), "profile")
}

// pidOfBlob decodes a stored profile and names the built profile it is equal to.
func (h *vfC15) pidOfBlob(blob []byte) string {
	var p userProfile
	if err := gob.NewDecoder(bytes.NewReader(blob)).Decode(&p); err != nil {
		return "!gob"
	}
	if !strings.HasPrefix(p.DisplayName, "pid-") {
		return "!unknown"
	}
	pid, err := strconv.Atoi(p.DisplayName[4:])
	want, ok := h.profiles[pid]
	if err != nil || !ok {
		return "!unknown"
	}
	if d := vfProfileDiff(want, &p); d != "" {
		return fmt.Sprintf("%d!%s", pid, d)
	}
	return strconv.Itoa(pid)
}

// ---------------------------------------------------------------- digests

func (h *vfC15) digestDB(db *sql.DB) (users, signed string) {
	var us, ss []string
	rows, err := db.Query("SELECT username, profile_data FROM user_profile")
	if err != nil {
		return "!" + err.Error(), ""
	}
	type urow struct {
		u int
		s string
	}
	var ur []urow
	for rows.Next() {
		var name string
		var blob []byte
		if err := rows.Scan(&name, &blob); err != nil {
			rows.Close()
			return "!scan", ""
		}
		u, err := strconv.Atoi(strings.TrimPrefix(name, "user"))
		if err != nil {
			u = -1
		}
		ur = append(ur, urow{u, fmt.Sprintf("%d:%s", u, h.pidOfBlob(blob))})
	}
	rows.Close()
	sort.Slice(ur, func(i, j int) bool { return ur[i].u < ur[j].u })
	for _, r := range ur {
		us = append(us, r.s)
	}
	rows, err = db.Query("SELECT username, type, jws_data, expiration_epoch FROM expiring_signed_user_data")
	if err != nil {
		return strings.Join(us, ","), "!" + err.Error()
	}
	type srow struct {
		u, t int
		s    string
	}
	var sr []srow
	for rows.Next() {
		var name, jws string
		var ty int
		var exp int64
		if err := rows.Scan(&name, &ty, &jws, &exp); err != nil {
			rows.Close()
			return strings.Join(us, ","), "!scan"
		}
		u, err := strconv.Atoi(strings.TrimPrefix(name, "user"))
		if err != nil {
			u = -1
		}
		data := "!jws"
		if tok, err := h.state.getStorageDataFromStorageStringDataJWT(jws); err == nil && tok.Subject == name && tok.DataType == ty {
			data = strings.TrimPrefix(tok.Data, "d")
		}
		sr = append(sr, srow{u, ty, fmt.Sprintf("%d/%d:%s@%d", u, ty, data, exp-h.t0)})
	}
	rows.Close()
	sort.Slice(sr, func(i, j int) bool { return sr[i].u < sr[j].u || sr[i].u == sr[j].u && sr[i].t < sr[j].t })
	for _, r := range sr {
		ss = append(ss, r.s)
	}
	return strings.Join(us, ","), strings.Join(ss, ",")
}

func (h *vfC15) digestOne(db *sql.DB, tag string) string {
	u, s := h.digestDB(db)
	return fmt.Sprintf("%s[%s][%s]", tag, u, s)
}

func (h *vfC15) digest() string {
	return h.digestOne(h.rawP, "P") + " " + h.digestOne(h.rawC, "C")
}

// ---------------------------------------------------------------- cache snapshot / restore

type vfSnap struct {
	users  [][2]interface{}
	signed [][5]interface{}
}

func (h *vfC15) snapshot(db *sql.DB) *vfSnap {
	s := &vfSnap{}
	rows, err := db.Query("SELECT username, profile_data FROM user_profile")
	if err != nil {
		h.t.Fatal(err)
	}
	for rows.Next() {
		var n string
		var b []byte
		rows.Scan(&n, &b)
		s.users = append(s.users, [2]interface{}{n, b})
	}
	rows.Close()
	rows, err = db.Query("SELECT username, type, jws_data, expiration_epoch, update_epoch FROM expiring_signed_user_data")
	if err != nil {
		h.t.Fatal(err)
	}
	for rows.Next() {
		var n, j string
		var ty int
		var e, u int64
		rows.Scan(&n, &ty, &j, &e, &u)
		s.signed = append(s.signed, [5]interface{}{n, ty, j, e, u})
	}
	rows.Close()
	return s
}

func (h *vfC15) restore(db *sql.DB, s *vfSnap) {
	tx, err := db.Begin()
	if err != nil {
		h.t.Fatal(err)
	}
	must := func(_ sql.Result, err error) {
		if err != nil {
			h.t.Fatal(err)
		}
	}
	must(tx.Exec("DELETE FROM user_profile"))
	must(tx.Exec("DELETE FROM expiring_signed_user_data"))
	for _, r := range s.users {
		must(tx.Exec("INSERT INTO user_profile(username, profile_data) VALUES(?,?)", r[0], r[1]))
	}
	for _, r := range s.signed {
		must(tx.Exec("INSERT INTO expiring_signed_user_data(username, type, jws_data, expiration_epoch, update_epoch) VALUES(?,?,?,?,?)",
			r[0], r[1], r[2], r[3], r[4]))
	}
	if err := tx.Commit(); err != nil {
		h.t.Fatal(err)
	}
}

// ---------------------------------------------------------------- setup

// vfWrapDBs replaces the two handles initDB opened by handles on the same files that go through
// the wrapping driver (the background copier has been cancelled before its first run).
func vfWrapDBs(t *testing.T, state *RuntimeState) {
	state.db.Close()
	state.cacheDB.Close()
	pPath := filepath.Join(state.Config.Base.DataDirectory, profileDBFilename)
	cPath := filepath.Join(state.Config.Base.DataDirectory, cachedDBFilename)
	var err error
	if state.db, err = sql.Open("vfsqlite_p", pPath); err != nil {
		t.Fatal(err)
	}
	state.db.SetMaxIdleConns(0) // as initDBSQlite does
	if state.cacheDB, err = sql.Open("vfsqlite_c", cPath); err != nil {
		t.Fatal(err)
	}
}

// restart: the daemon is stopped and started again on the same data directory — both handles are
// closed and the REAL initDB runs again (cache file first, then the primary), nothing else.
// vfWaitStorageQuiet waits until no other goroutine is inside storage.go. LoadUserProfile / GetSigned / getUsers run
// the primary query in a goroutine of their own and return from the local copy when it has not answered in time
// (modes t0, slow): that goroutine lives on, and reads the field state.db when it gets to run. A daemon never
// replaces its database handles; this harness does (restart), so it lets those goroutines finish first — on a loaded
// machine one of them woke up after state.db had been set to nil and the nil dereference in (*sql.DB).Prepare
// took the whole test binary down (thorough tier, first attempt of the run of 2026-09-30).
func vfWaitStorageQuiet(max time.Duration) {
	deadline := time.Now().Add(max)
	buf := make([]byte, 4<<20)
	for {
		n := runtime.Stack(buf, true)
		busy := false
		for i, g := range strings.Split(string(buf[:n]), "\n\n") {
			if i > 0 && strings.Contains(g, "cmd/keymasterd/storage.go:") { // i == 0 is the calling goroutine
				busy = true
			}
		}
		if !busy || time.Now().After(deadline) {
			return
		}
		time.Sleep(5 * time.Millisecond)
	}
}

func (h *vfC15) restart() string {
	state := h.state
	h.setMode("up")
	vfWaitStorageQuiet(20 * time.Second)
	state.db.Close()
	state.cacheDB.Close()
	state.db, state.cacheDB = nil, nil
	tlog := state.logger
	state.logger = logger // BackgroundDBCopy keeps the logger it is started with (see vfNewState)
	err := initDB(state)
	state.logger = tlog
	if err != nil {
		return "err initDB"
	}
	state.dbDone <- struct{}{} // no background copy: every synchronisation is explicit
	vfWrapDBs(h.t, state)
	return "ok " + h.digest()
}

func vfC15Setup(t *testing.T) (*vfC15, func()) {
	vfRegisterOnce.Do(func() {
		sql.Register("vfsqlite_p", &vfDriver{'p'})
		sql.Register("vfsqlite_c", &vfDriver{'c'})
	})
	state, cleanup := vfNewState(t)
	// stop the background copier before its first run: every synchronisation is explicit
	state.dbDone <- struct{}{}
	pPath := filepath.Join(state.Config.Base.DataDirectory, profileDBFilename)
	cPath := filepath.Join(state.Config.Base.DataDirectory, cachedDBFilename)
	var err error
	vfWrapDBs(t, state)
	h := &vfC15{t: t, state: state, t0: time.Now().Unix(), profiles: map[int]*userProfile{},
		tokens: map[int]*vfToken{}, secrets: map[int]string{}, otps: map[int]string{}}
	if h.rawP, err = sql.Open("sqlite3", pPath); err != nil {
		t.Fatal(err)
	}
	if h.rawC, err = sql.Open("sqlite3", cPath); err != nil {
		t.Fatal(err)
	}
	*vfF = vfFaultCtl{failAt: -1, downAfter: -1, pFailAt: -1}
	state.HostIdentity = "vfhost.example"
	u2fAppID = vfC15Origin
	u2fTrustedFacets = []string{vfC15Origin}
	state.webAuthn, err = webauthn.New(&webauthn.Config{RPDisplayName: "Keymaster Server",
		RPID: state.HostIdentity, RPOrigin: vfC15Origin})
	if err != nil {
		t.Fatal(err)
	}
	state.isAdminCache = admincache.New(time.Minute)
	// configuration under which every profile-writing branch is reachable: self-service
	// bootstrap OTP by e-mail (recording mailer), password logins for every harness user
	state.Config.Base.AllowSelfServiceBootstrapOTP = true
	state.Config.Base.HostIdentity = state.HostIdentity
	state.Config.Email.Domain = "example.com"
	h.mailer = &vfMailer{}
	state.emailManager = h.mailer
	state.textTemplates = texttemplate.New("text")
	for _, text := range []string{emailAdminTemplateData, emailUserTemplateData} {
		if _, err := state.textTemplates.Parse(text); err != nil {
			t.Fatal(err)
		}
	}
	var pw strings.Builder
	hash := userdbContent[strings.Index(userdbContent, ":"):]
	for i := 0; i < 1100; i++ {
		pw.WriteString(vfUserName(i) + hash + "\n")
	}
	pwPath := filepath.Join(state.Config.Base.DataDirectory, "vf_htpasswd")
	if err := os.WriteFile(pwPath, []byte(pw.String()), 0600); err != nil {
		t.Fatal(err)
	}
	if state.passwordChecker, err = htpassword.New(pwPath, logger); err != nil {
		t.Fatal(err)
	}
	state.Config.Base.AdminUsers = []string{"admin"}
	state.Config.Base.AllowedAuthBackendsForWebUI = []string{proto.AuthTypeU2F, proto.AuthTypeTOTP, proto.AuthTypeBootstrapOTP}
	return h, func() {
		h.rawP.Close()
		h.rawC.Close()
		state.db.Close()
		state.cacheDB.Close()
		cleanup()
	}
}

// sync runs the real copyDBIntoSQLite with a fault at statement failAt (-1: none).
func (h *vfC15) sync(failAt int, commitPost bool) (err error, n int, hit bool, trace string) {
	vfF.arm(failAt, commitPost)
	err = copyDBIntoSQLite(h.state.db, h.state.cacheDB, "sqlite")
	n, hit, trace = vfF.disarm()
	return
}

// cacheLoads reads every cached profile through LoadUserProfile with the primary timed out.
func (h *vfC15) cacheLoads() string {
	saved := h.state.remoteDBQueryTimeout
	h.state.remoteDBQueryTimeout = 0
	defer func() { h.state.remoteDBQueryTimeout = saved }()
	rows, err := h.rawC.Query("SELECT username, profile_data FROM user_profile")
	if err != nil {
		return "cl=!"
	}
	type ub struct {
		n string
		b []byte
	}
	var all []ub
	for rows.Next() {
		var r ub
		rows.Scan(&r.n, &r.b)
		all = append(all, r)
	}
	rows.Close()
	good := 0
	for _, r := range all {
		p, ok, fromCache, err := h.state.LoadUserProfile(r.n)
		if err != nil || !ok || !fromCache {
			continue
		}
		pid := h.pidOfBlob(r.b)
		if want, have := h.profiles[vfAtoi(pid)]; have && vfProfileDiff(want, p) == "" {
			good++
		}
	}
	// GetUsers answered by the cache lists exactly the cached users
	names, fromCache, err := h.state.GetUsers()
	var want []string
	for _, r := range all {
		want = append(want, r.n)
	}
	sort.Strings(want)
	if err != nil || !fromCache || strings.Join(names, ",") != strings.Join(want, ",") {
		return "cl=users-differ"
	}
	// GetSigned answered by the cache returns every cached, unexpired record
	total := len(all)
	srows, err := h.rawC.Query("SELECT username, type, jws_data, expiration_epoch FROM expiring_signed_user_data")
	if err != nil {
		return "cl=!"
	}
	type sr struct {
		n, j string
		t    int
		e    int64
	}
	var sall []sr
	for srows.Next() {
		var r sr
		srows.Scan(&r.n, &r.t, &r.j, &r.e)
		sall = append(sall, r)
	}
	srows.Close()
	for _, r := range sall {
		total++
		ok, data, err := h.state.GetSigned(r.n, r.t)
		tok, terr := h.state.getStorageDataFromStorageStringDataJWT(r.j)
		if r.e > time.Now().Unix() {
			if err == nil && ok && terr == nil && data == tok.Data {
				good++
			}
		} else if err == nil && !ok {
			good++
		}
	}
	return fmt.Sprintf("cl=%d/%d", good, total)
}

func vfAtoi(s string) int {
	n, err := strconv.Atoi(s)
	if err != nil {
		return -1
	}
	return n
}

func vfErrWord(err error) string {
	if err == nil {
		return "ok"
	}
	return "err"
}

// ---------------------------------------------------------------- interpreter

func TestVerifC15(t *testing.T) {
	io := vfOpen(t)
	defer io.close()
	var h *vfC15
	var cleanup func()
	defer func() {
		if cleanup != nil {
			cleanup()
		}
	}()
	for _, line := range io.ops {
		f := strings.Fields(line)
		if len(f) == 0 {
			io.emit("bad-op")
			continue
		}
		if f[0] == "reset" {
			if cleanup != nil {
				cleanup()
			}
			h, cleanup = vfC15Setup(t)
			io.emit("ok %s", h.digest())
			continue
		}
		if h == nil {
			h, cleanup = vfC15Setup(t)
		}
		io.emit("%s", h.op(f))
	}
}

func vfInts(f []string) ([]int, bool) {
	out := make([]int, len(f))
	for i, s := range f {
		n, err := strconv.Atoi(s)
		if err != nil {
			return nil, false
		}
		out[i] = n
	}
	return out, true
}

func (h *vfC15) op(f []string) string {
	state := h.state
	switch {
	case f[0] == "add" && len(f) == 3:
		a, ok := vfInts(f[1:])
		if !ok || a[0] < 0 || a[1] < 0 {
			return "bad-op"
		}
		p := h.build(a[1])
		if err := state.SaveUserProfile(vfUserName(a[0]), p); err != nil {
			return "err " + h.digest()
		}
		got, ok, fromCache, err := state.LoadUserProfile(vfUserName(a[0]))
		rt := err == nil && ok && !fromCache && vfProfileDiff(p, got) == ""
		return fmt.Sprintf("ok rt=%s %s", vfBool(rt), h.digest())
	case f[0] == "del" && len(f) == 2:
		a, ok := vfInts(f[1:])
		if !ok || a[0] < 0 {
			return "bad-op"
		}
		return vfErrWord(state.DeleteUserProfile(vfUserName(a[0]))) + " " + h.digest()
	case f[0] == "ssave" && len(f) == 5:
		a, ok := vfInts(f[1:])
		if !ok || a[0] < 0 || a[1] < 0 || a[2] < 0 {
			return "bad-op"
		}
		err := state.UpsertSigned(vfUserName(a[0]), a[1], h.t0+int64(a[3]), "d"+strconv.Itoa(a[2]))
		return vfErrWord(err) + " " + h.digest()
	case f[0] == "sdel" && len(f) == 3:
		a, ok := vfInts(f[1:])
		if !ok || a[0] < 0 || a[1] < 0 {
			return "bad-op"
		}
		return vfErrWord(state.DeleteSigned(vfUserName(a[0]), a[1])) + " " + h.digest()
	case f[0] == "tick" && len(f) == 2:
		a, ok := vfInts(f[1:])
		if !ok || a[0] < 0 {
			return "bad-op"
		}
		// advancing the clock by d == moving every stored expiry d seconds into the past
		for _, db := range []*sql.DB{h.rawP, h.rawC} {
			if _, err := db.Exec("UPDATE expiring_signed_user_data SET expiration_epoch = expiration_epoch - ?", a[0]); err != nil {
				return "err " + h.digest()
			}
		}
		return "ok " + h.digest()
	case f[0] == "sync" && len(f) == 2 && f[1] == "-":
		err, n, _, trace := h.sync(-1, false)
		return fmt.Sprintf("%s n=%d tr=%s %s %s", vfErrWord(err), n, trace, h.cacheLoads(), h.digest())
	case f[0] == "sync" && len(f) == 3 && (f[2] == "pre" || f[2] == "post"):
		k, err := strconv.Atoi(f[1])
		if err != nil || k < 0 {
			return "bad-op"
		}
		e, _, hit, _ := h.sync(k, f[2] == "post")
		return fmt.Sprintf("%s hit=%s %s", vfErrWord(e), vfBool(hit), h.digest())
	case f[0] == "fsync" && len(f) == 2 && (f[1] == "pre" || f[1] == "post"):
		// a fault at EVERY statement of the synchronisation, the cache restored in between
		snap := h.snapshot(h.rawC)
		var res []string
		full := ""
		for k := 0; ; k++ {
			e, _, hit, tr := h.sync(k, f[1] == "post")
			if !hit {
				full = tr
				h.restore(h.rawC, snap)
				break
			}
			res = append(res, fmt.Sprintf("%d:%s:%s", k, vfErrWord(e), h.digestOne(h.rawC, "C")))
			h.restore(h.rawC, snap)
			if k > 5000 {
				return "err runaway"
			}
		}
		return fmt.Sprintf("ok n=%d tr=%s %s | %s", len(res), full, strings.Join(res, " "), h.digest())
	case f[0] == "outage" && len(f) == 4:
		a, ok := vfInts(f[2:])
		if !ok {
			return "bad-op"
		}
		return h.outage(f[1], a[0], a[1])
	case f[0] == "flap" && len(f) == 4:
		a, ok := vfInts(f[2:])
		if !ok {
			return "bad-op"
		}
		return h.flap(f[1], a[0], a[1])
	case f[0] == "restart" && len(f) == 1:
		return h.restart()
	case f[0] == "label" && len(f) == 4:
		a, ok := vfInts(f[1:])
		if !ok || a[0] < 0 || a[1] < 0 || a[2] < 0 || a[1] == a[2] {
			return "bad-op"
		}
		return h.label(a[0], a[1], a[2])
	case f[0] == "ostale" && len(f) == 5:
		a, ok := vfInts(f[2:])
		if !ok || a[1] < 0 || a[2] < 0 {
			return "bad-op"
		}
		return h.matrix(f[1], a[0], a[1], a[2])
	case f[0] == "stale" && len(f) == 5:
		a, ok := vfInts(f[2:])
		if !ok {
			return "bad-op"
		}
		return h.stale(f[1], a[0], a[1], a[2])
	}
	return "bad-op"
}

// ---------------------------------------------------------------- outage: handlers

func (h *vfC15) cookie(user string) *http.Cookie {
	return vfAuthCookie(h.t, h.state, user, AuthTypePassword|AuthTypeU2F|AuthTypeTOTP|AuthTypeBootstrapOTP)
}

func (h *vfC15) post(handler http.HandlerFunc, path string, authUser string, form url.Values, jsonBody []byte) string {
	var req *http.Request
	if jsonBody != nil {
		req = httptest.NewRequest("POST", path, bytes.NewReader(jsonBody))
		req.Header.Set("Content-Type", "application/json")
	} else {
		req = httptest.NewRequest("POST", path, strings.NewReader(form.Encode()))
		req.Header.Set("Content-Type", "application/x-www-form-urlencoded")
	}
	req.AddCookie(h.cookie(authUser))
	rr, p := vfServe(handler, req)
	if p != nil {
		return "PANIC"
	}
	io.Copy(io.Discard, rr.Body)
	return strconv.Itoa(rr.Code)
}

// setMode switches the primary between reachable and three kinds of outage.
//
//	up    primary answers normally
//	t0    state.remoteDBQueryTimeout = 0 (the repository's own way to force the cache)
//	slow  primary answers reads after the query timeout, writes still succeed
//	down  every statement on the primary fails
//	rerr  executing a SELECT on the primary reports an error; connect, prepare and writes work
func (h *vfC15) setMode(mode string) bool {
	vfF.mu.Lock()
	vfF.down, vfF.readDelay, vfF.downAfter, vfF.readErr, vfF.pFailAt = false, 0, -1, false, -1
	vfF.mu.Unlock()
	h.state.remoteDBQueryTimeout = vfPrimaryAnswersInTime
	switch mode {
	case "up":
	case "rerr": // flapping primary: the SELECTs answer with an error, writes go through
		vfF.mu.Lock()
		vfF.readErr = true
		vfF.mu.Unlock()
	case "t0":
		h.state.remoteDBQueryTimeout = 0
	case "slow":
		h.state.remoteDBQueryTimeout = 25 * time.Millisecond
		vfF.mu.Lock()
		vfF.readDelay = 120 * time.Millisecond
		vfF.mu.Unlock()
	case "down":
		h.state.remoteDBQueryTimeout = 25 * time.Millisecond
		vfF.mu.Lock()
		vfF.down = true
		vfF.mu.Unlock()
	default:
		return false
	}
	return true
}

// outage <mode> <u> <pid>: user u holds profile pid in the primary and in the cache; every
// mutating route is called with a request that is complete enough to reach its storage code.
// Output: canonical answer per route (refused = 503, failed = 500, ok = 200/302, else the
// code), whether both row sets are unchanged, digest before and after the direct delete.
// Mode "up" is the sanity run (the same requests do reach the storage code and change rows);
// its effects are undone afterwards.
func (h *vfC15) outage(mode string, u, pid int) string { return h.matrix(mode, u, pid, -1) }

// ostale <mode> <u> <pidOld> <pidNew>: the same matrix, but the starting state is "the primary
// is ahead of the cache": the cache holds pidOld for u (last synchronisation), the primary has
// since been changed to pidNew, and user 1000+u exists in the primary only.  The handlers see
// the cached profile, so the requests are built for pidOld.
func (h *vfC15) matrix(mode string, u, pid, pidNew int) string {
	state := h.state
	user := vfUserName(u)
	p := h.build(pid)
	h.setMode("up")
	if err := state.SaveUserProfile(user, p); err != nil {
		return "err save"
	}
	if err, _, _, _ := h.sync(-1, false); err != nil {
		return "err sync"
	}
	if pidNew >= 0 {
		if err := state.SaveUserProfile(user, h.build(pidNew)); err != nil {
			return "err save2"
		}
		if err := state.SaveUserProfile(vfUserName(1000+u), h.build(pidNew)); err != nil {
			return "err save3"
		}
	}
	h.mailer.take()
	before := h.digest()
	snapP, snapC := h.snapshot(h.rawP), h.snapshot(h.rawC)
	if !h.setMode(mode) {
		return "bad-op"
	}
	defer h.setMode("up")
	var idx int64
	for i := range p.U2fAuthData {
		idx = i
	}
	var tidx int64
	for i := range p.TOTPAuthData {
		tidx = i
	}
	uf := func(kv ...string) url.Values {
		v := url.Values{}
		for i := 0; i+1 < len(kv); i += 2 {
			v.Set(kv[i], kv[i+1])
		}
		return v
	}
	var out []string
	add := func(name, code string) {
		switch code {
		case "503":
			code = "refused"
		case "500":
			code = "failed"
		case "200", "302":
			code = "ok"
		}
		out = append(out, name+"="+code)
	}
	// --- logins and second factor checks that must keep working from the cache
	state.Config.Base.AllowedAuthBackendsForWebUI = []string{proto.AuthTypePassword}
	{
		req := httptest.NewRequest("POST", "/api/v0/login", strings.NewReader(
			uf("username", user, "password", "password").Encode()))
		req.Header.Set("Content-Type", "application/x-www-form-urlencoded")
		rr, pn := vfServe(state.loginHandler, req)
		code := "PANIC"
		if pn == nil {
			code = strconv.Itoa(rr.Code)
		}
		add("login", code)
	}
	state.Config.Base.AllowedAuthBackendsForWebUI = []string{proto.AuthTypeU2F, proto.AuthTypeTOTP, proto.AuthTypeBootstrapOTP}
	if sec, ok := h.secrets[pid]; ok {
		state.totpLocalTateLimitMutex.Lock()
		delete(state.totpLocalRateLimit, user)
		state.totpLocalTateLimitMutex.Unlock()
		code, _ := totp.GenerateCode(sec, time.Now())
		add("authTOTP", h.post(state.TOTPAuthHandler, totpAuthPath, user, uf("OTP", code), nil))
	}
	if tk, ok := h.tokens[pid]; ok && len(p.U2fAuthData) > 0 {
		add("u2fSignReq", h.post(state.u2fSignRequest, u2fSignRequestPath, user, uf(), nil))
		add("waAuthBegin", h.post(state.webauthnAuthLogin, webAuthnAuthBeginPath, user, uf(), nil))
		state.Mutex.Lock()
		la, ok := state.localAuthData[user]
		state.Mutex.Unlock()
		fin := "-"
		if ok && la.WebAuthnChallenge != nil {
			body := tk.assertion(la.WebAuthnChallenge.Challenge, vfC15Origin, u2fAppID, 4242)
			fin = h.post(state.webauthnAuthFinish, webAuthnAuthFinishPath, user, nil, body)
			time.Sleep(150 * time.Millisecond) // the handler saves in a goroutine
		}
		add("waAuthFinish", fin)
	}
	// --- routes that change a profile
	regBody := []byte(`{}`)
	if p.RegistrationChallenge != nil {
		tk := vfNewToken(h.t, "outage")
		regBody, _ = json.Marshal(tk.register(p.RegistrationChallenge, vfC15Origin))
	}
	add("u2fRegResp", h.post(state.u2fRegisterResponse, u2fRegisterRequesponsePath+user, user, nil, regBody))
	add("u2fRegReq", h.post(state.u2fRegisterRequest, u2fRegustisterRequestPath+user, user, uf(), nil))
	newCode := "123456"
	if p.PendingTOTPSecret != nil { // the pending secret of build(): a valid code reaches the write branch
		newCode, _ = totp.GenerateCode("JBSWY3DPEHPK3PXP", time.Now())
	}
	add("valTOTP", h.post(state.validateNewTOTP, totpValidateNewPath, user, uf("OTP", newCode), nil))
	add("genTOTP", h.post(state.GenerateNewTOTP, totpGeneratNewPath, user, uf(), nil))
	add("mgTOTP", h.post(state.totpTokenManagerHandler, totpTokenManagementPath, user,
		uf("username", user, "index", strconv.FormatInt(tidx, 10), "action", "Disable"), nil))
	add("waRegBegin", h.post(state.webauthnBeginRegistration, webAutnRegististerRequestPath+user, user, uf(), nil))
	add("waRegFinish", h.post(state.webauthnFinishRegistration, webAutnRegististerFinishPath+user, user, nil, []byte(`{}`)))
	add("mgU2F", h.post(state.u2fTokenManagerHandler, u2fTokenManagementPath, user,
		uf("username", user, "index", strconv.FormatInt(idx, 10), "action", "Disable"), nil))
	add("bootstrapAuth", h.post(state.BootstrapOtpAuthHandler, bootstrapOtpAuthPath, user, uf("OTP", h.otps[pid]), nil))
	add("addUser", h.post(state.addUserHandler, addUserPath, "admin", uf("username", vfUserName(1000+u)), nil))
	add("genBootstrap", h.post(state.generateBootstrapOTP, generateBoostrapOTPPath, "admin", uf("username", user), nil))
	after := h.digest()
	mails := h.mailer.take()
	if mode == "up" {
		h.setMode("up")
		h.restore(h.rawP, snapP)
		h.restore(h.rawC, snapC)
		return fmt.Sprintf("ok sanity changed=%s mails=%d %s | %s", vfBool(before != after), mails, strings.Join(out, " "), h.digest())
	}
	// --- the direct write (never loads a profile): last, it removes the user
	add("deleteUser", h.post(state.deleteUserHandler, deleteUserPath, "admin", uf("username", user), nil))
	h.setMode("up")
	return fmt.Sprintf("ok unchanged=%s mails=%d %s | %s | %s", vfBool(before == after), mails, strings.Join(out, " "), after, h.digest())
}

// stale <mode> <u> <pidOld> <pidNew>: the cache holds pidOld for u (last synchronisation), the
// primary has since been changed to pidNew.  A successful WebAuthn/U2F assertion is then
// presented to webauthnAuthFinish while the primary is in <mode>.  Output: the handler's
// status and the digest; the property is violated when the primary's row is neither pidNew
// nor absent (i.e. cached, stale data has been written over it).
func (h *vfC15) stale(mode string, u, pidOld, pidNew int) string {
	state := h.state
	user := vfUserName(u)
	old := h.build(pidOld)
	tk, ok := h.tokens[pidOld]
	if !ok || len(old.U2fAuthData) == 0 {
		return "bad-op"
	}
	h.setMode("up")
	if err := state.SaveUserProfile(user, old); err != nil {
		return "err save"
	}
	if err, _, _, _ := h.sync(-1, false); err != nil {
		return "err sync"
	}
	if err := state.SaveUserProfile(user, h.build(pidNew)); err != nil {
		return "err save2"
	}
	if !h.setMode(mode) {
		return "bad-op"
	}
	defer h.setMode("up")
	begin := h.post(state.webauthnAuthLogin, webAuthnAuthBeginPath, user, url.Values{}, nil)
	state.Mutex.Lock()
	la, ok := state.localAuthData[user]
	state.Mutex.Unlock()
	finish := "-"
	if ok && la.WebAuthnChallenge != nil {
		body := tk.assertion(la.WebAuthnChallenge.Challenge, vfC15Origin, u2fAppID, 4242)
		finish = h.post(state.webauthnAuthFinish, webAuthnAuthFinishPath, user, nil, body)
		time.Sleep(200 * time.Millisecond) // the handler saves in a goroutine
	}
	h.setMode("up")
	// what does the primary hold now?
	var blob []byte
	row := "absent"
	if err := h.rawP.QueryRow("SELECT profile_data FROM user_profile WHERE username = ?", user).Scan(&blob); err == nil {
		var got userProfile
		if err := gob.NewDecoder(bytes.NewReader(blob)).Decode(&got); err != nil {
			row = "!gob"
		} else {
			row = strings.TrimPrefix(got.DisplayName, "pid-")
			if c, ok := got.U2fAuthData[firstKey(got.U2fAuthData)]; ok && c.Counter == 4242 {
				row += "+counter"
			}
		}
	}
	return fmt.Sprintf("ok begin=%s finish=%s primary=%s | %s", begin, finish, row, h.digest())
}

// flap <route> <u> <pid>: the primary becomes unreachable after its k-th statement, for every k
// until the request completes untouched ("primary outage at any point of a request").  Per k:
// the handler's answer, whether the row the route writes is still the old one (old), an
// intact different one (new) or undecodable (corrupt), and whether the cache is unchanged.
// The primary is restored after every k.
func (h *vfC15) flap(route string, u, pid int) string {
	state := h.state
	user := vfUserName(u)
	p := h.build(pid)
	h.setMode("up")
	if err := state.SaveUserProfile(user, p); err != nil {
		return "err save"
	}
	if err, _, _, _ := h.sync(-1, false); err != nil {
		return "err sync"
	}
	snapP := h.snapshot(h.rawP)
	target := user
	var call func() string
	uf := func(kv ...string) url.Values {
		v := url.Values{}
		for i := 0; i+1 < len(kv); i += 2 {
			v.Set(kv[i], kv[i+1])
		}
		return v
	}
	switch route {
	case "mgU2F":
		if len(p.U2fAuthData) == 0 {
			return "bad-op"
		}
		idx := firstKey(p.U2fAuthData)
		call = func() string {
			return h.post(state.u2fTokenManagerHandler, u2fTokenManagementPath, user,
				uf("username", user, "index", strconv.FormatInt(idx, 10), "action", "Delete"), nil)
		}
	case "genTOTP":
		call = func() string { return h.post(state.GenerateNewTOTP, totpGeneratNewPath, user, uf(), nil) }
	case "addUser":
		target = vfUserName(1000 + u)
		call = func() string {
			return h.post(state.addUserHandler, addUserPath, "admin", uf("username", target), nil)
		}
	case "deleteUser":
		call = func() string {
			return h.post(state.deleteUserHandler, deleteUserPath, "admin", uf("username", user), nil)
		}
	default:
		return "bad-op"
	}
	rowOf := func() string {
		var blob []byte
		err := h.rawP.QueryRow("SELECT profile_data FROM user_profile WHERE username = ?", target).Scan(&blob)
		if err != nil {
			return "absent"
		}
		return h.pidOfBlob(blob)
	}
	before := rowOf()
	cacheBefore := h.digestOne(h.rawC, "C")
	var res []string
	for k := 0; k <= 40; k++ {
		h.state.remoteDBQueryTimeout = 40 * time.Millisecond
		vfF.mu.Lock()
		vfF.down, vfF.downAfter = false, k
		vfF.mu.Unlock()
		code := call()
		time.Sleep(5 * time.Millisecond)
		vfF.mu.Lock()
		wentDown := vfF.down
		vfF.down, vfF.downAfter = false, -1
		vfF.mu.Unlock()
		switch code {
		case "503":
			code = "refused"
		case "500":
			code = "failed"
		case "200", "302":
			code = "ok"
		}
		row := rowOf()
		switch {
		case row == before:
			row = "old"
		case strings.Contains(row, "!gob"):
			row = "corrupt"
		default:
			row = "new"
		}
		res = append(res, fmt.Sprintf("%d:%s:%s:%s", k, code, row, vfBool(h.digestOne(h.rawC, "C") == cacheBefore)))
		h.restore(h.rawP, snapP)
		if !wentDown {
			break
		}
	}
	h.setMode("up")
	return fmt.Sprintf("ok flap %s %s | %s", route, strings.Join(res, " "), h.digest())
}

// label <u> <pidOld> <pidNew>: is the fromCache result of LoadUserProfile / GetUsers truthful?
// The cache holds pidOld for u, the primary pidNew, user 1000+u exists in the primary only.
// The loaders are called with the primary in every outage mode, with exactly its k-th statement
// failing (for every k) and with the primary lost after its k-th statement (for every k).
// Per point: where the answer came from (compared with what each database holds at that moment)
// and the fromCache flag returned with it.
func (h *vfC15) label(u, pidOld, pidNew int) string {
	state := h.state
	user, user2 := vfUserName(u), vfUserName(1000+u)
	old, nw := h.build(pidOld), h.build(pidNew)
	h.setMode("up")
	if err := state.SaveUserProfile(user, old); err != nil {
		return "err save"
	}
	if err, _, _, _ := h.sync(-1, false); err != nil {
		return "err sync"
	}
	if state.SaveUserProfile(user, nw) != nil || state.SaveUserProfile(user2, nw) != nil {
		return "err save2"
	}
	namesOf := func(db *sql.DB) string {
		rows, err := db.Query("select username from user_profile order by username")
		if err != nil {
			return "!"
		}
		defer rows.Close()
		var l []string
		for rows.Next() {
			var n string
			rows.Scan(&n)
			l = append(l, n)
		}
		return strings.Join(l, ",")
	}
	pNames, cNames := namesOf(h.rawP), namesOf(h.rawC)
	// what each database holds for a user right now (nil: no row)
	rowOf := func(db *sql.DB, name string) *userProfile {
		var blob []byte
		if db.QueryRow("SELECT profile_data FROM user_profile WHERE username = ?", name).Scan(&blob) != nil {
			return nil
		}
		var p userProfile
		if gob.NewDecoder(bytes.NewReader(blob)).Decode(&p) != nil {
			return nil
		}
		return &p
	}
	// answer classes: P = the primary's row, C = the cache's row, S = both hold the same content,
	// N = "no such user" and only the cache lacks the row, Z = "no such user" and neither has it,
	// X = "no such user" although the cache has the row, other, err
	load := func(name string) string {
		pr, cr := rowOf(h.rawP, name), rowOf(h.rawC, name)
		p, ok, fc, err := state.LoadUserProfile(name)
		switch {
		case err != nil:
			return "err" + vfBool(fc)
		case !ok && cr == nil && pr != nil:
			return "N" + vfBool(fc)
		case !ok && cr == nil:
			return "Z" + vfBool(fc)
		case !ok:
			return "X" + vfBool(fc)
		case pr != nil && cr != nil && vfProfileDiff(pr, cr) == "" && vfProfileDiff(pr, p) == "":
			return "S" + vfBool(fc)
		case pr != nil && vfProfileDiff(pr, p) == "":
			return "P" + vfBool(fc)
		case cr != nil && vfProfileDiff(cr, p) == "":
			return "C" + vfBool(fc)
		}
		return "other" + vfBool(fc)
	}
	users := func() string {
		names, fc, err := state.GetUsers()
		switch {
		case err != nil:
			return "err" + vfBool(fc)
		case strings.Join(names, ",") == pNames && pNames == cNames:
			return "S" + vfBool(fc)
		case strings.Join(names, ",") == pNames:
			return "P" + vfBool(fc)
		case strings.Join(names, ",") == cNames:
			return "C" + vfBool(fc)
		}
		return "other" + vfBool(fc)
	}
	var out []string
	for _, mode := range []string{"up", "t0", "slow", "down", "rerr"} {
		h.setMode(mode)
		out = append(out, mode+"/u:"+load(user), mode+"/n:"+load(user2), mode+"/l:"+users())
	}
	h.setMode("up")
	time.Sleep(160 * time.Millisecond) // let the delayed primary reads of the modes above finish
	type target struct {
		tag string
		f   func() string
	}
	targets := []target{{"u", func() string { return load(user) }}, {"n", func() string { return load(user2) }}, {"l", users}}
	for _, tg := range targets {
		for k := 0; k <= 12; k++ { // exactly the k-th primary statement fails
			state.remoteDBQueryTimeout = 60 * time.Millisecond
			vfF.mu.Lock()
			vfF.pFailAt, vfF.pN, vfF.pHit = k, 0, false
			vfF.mu.Unlock()
			r := tg.f()
			time.Sleep(2 * time.Millisecond)
			vfF.mu.Lock()
			hit := vfF.pHit
			vfF.pFailAt = -1
			vfF.mu.Unlock()
			out = append(out, fmt.Sprintf("f%d/%s:%s", k, tg.tag, r))
			if !hit {
				break
			}
		}
		for k := 0; k <= 12; k++ { // the primary is lost after its k-th statement
			state.remoteDBQueryTimeout = 60 * time.Millisecond
			vfF.mu.Lock()
			vfF.down, vfF.downAfter = false, k
			vfF.mu.Unlock()
			r := tg.f()
			time.Sleep(2 * time.Millisecond)
			vfF.mu.Lock()
			went := vfF.down
			vfF.down, vfF.downAfter = false, -1
			vfF.mu.Unlock()
			out = append(out, fmt.Sprintf("d%d/%s:%s", k, tg.tag, r))
			if !went {
				break
			}
		}
	}
	h.setMode("up")
	return fmt.Sprintf("ok label %s | %s", strings.Join(out, " "), h.digest())
}

func firstKey(m map[int64]*u2fAuthData) int64 {
	var keys []int64
	for k := range m {
		keys = append(keys, k)
	}
	sort.Slice(keys, func(i, j int) bool { return keys[i] < keys[j] })
	if len(keys) == 0 {
		return 0
	}
	return keys[0]
}
