package main

// C18 harness: request-controlled text is never rendered as markup.
//
// Every op drives the REAL handlers: most through a loopback net/http server (so that the
// request line, Host header and form are parsed exactly as in production) wrapped like the
// service port wraps them; two op kinds call the page writers in-process. Each HTML response is
// tokenized with golang.org/x/net/html and scanned for canary-named elements/attributes; every
// occurrence of the raw login-destination field is reported byte for byte together with the
// destination the page was rendered for.
//
// Op `sreq` (round 5) is `req` with two more dimensions: the life-cycle state of the daemon
// (ready / sealed = signer not loaded) and of the presented session credential (absent, garbage,
// signed by a foreign key, live, and the same genuine credentials after their expiry).
//
// Output, one line per op:
//   <op> <n responses> { R <status> <html 0/1> <hex Content-Type on the wire> <hex first 512 body bytes> <canaryElems> <canaryAttrs> <reflected 0/1> <n inputs>
//        { I <hex norm> <hex seg> <hex x/net value> <hex x/net reading of seg, `tok` format> } [ B <hex base64 operand> ] }
//   (R 0 0 - - 0 0 0 0 E <hex reason> when no response could be read: handler panic, save error)
// or for the pure ops:
//   esc   <hex html.EscapeString> <hex template.HTMLEscapeString>
//   tok   tag … | none            (x/net/html reading of a segment, same format as the driver)
//   b64   <hex base64>

import (
	"bufio"
	"bytes"
	"crypto/ecdsa"
	"crypto/elliptic"
	"crypto/rand"
	"crypto/sha256"
	"crypto/x509"
	"crypto/x509/pkix"
	"encoding/asn1"
	"encoding/base64"
	"encoding/json"
	"math/big"
	stdhtml "html"
	htmltmpl "html/template"
	"io"
	"net"
	"net/http"
	"net/http/httptest"
	"net/url"
	"sort"
	"strings"
	"testing"
	"time"

	"github.com/Cloud-Foundations/keymaster/keymasterd/admincache"
	"github.com/Cloud-Foundations/keymaster/lib/instrumentedwriter"
	"github.com/Cloud-Foundations/keymaster/lib/paths"
	"github.com/Cloud-Foundations/keymaster/lib/webapi/v0/proto"
	"github.com/duo-labs/webauthn/webauthn"
	xhtml "golang.org/x/net/html"
)

const vfC18Canary = "vfcanary"
const vfC18InputPrefix = `<INPUT TYPE="hidden" id="login_destination_input"`

type vfC18Input struct {
	seg   string // raw bytes from the start of the field to the end of its line
	value string // VALUE as golang.org/x/net/html decodes it
}

type vfC18Page struct {
	status      int
	ctype       string // Content-Type as on the wire (sniffed by net/http when the handler set none)
	prefix      string // first 512 body bytes (what a sniffer looks at)
	isHTML      bool
	canaryElems int
	canaryAttrs int
	reflected   bool
	inputs      []vfC18Input
	b64         string
	hasB64      bool
}

// vfC18Scan tokenizes a response body as an HTML5 tokenizer would — whatever its label: whether
// the response IS a markup document is decided by the judge from Content-Type and body together.
func vfC18Scan(status int, ctype string, body []byte) vfC18Page {
	pg := vfC18Page{status: status}
	if ctype == "" && len(body) > 0 {
		// net/http sniffs the type on the first write; httptest.ResponseRecorder does not do so
		// once WriteHeader has been called
		ctype = http.DetectContentType(body)
	}
	pg.ctype = ctype
	pg.prefix = string(body)
	if len(pg.prefix) > 512 {
		pg.prefix = pg.prefix[:512]
	}
	pg.isHTML = strings.HasPrefix(strings.ToLower(strings.TrimSpace(ctype)), "text/html")
	z := xhtml.NewTokenizer(bytes.NewReader(body))
	var xvalues []string
	for {
		tt := z.Next()
		if tt == xhtml.ErrorToken {
			break
		}
		switch tt {
		case xhtml.StartTagToken, xhtml.SelfClosingTagToken, xhtml.EndTagToken:
			tok := z.Token()
			if strings.Contains(strings.ToLower(tok.Data), vfC18Canary) {
				pg.canaryElems++
			}
			isDest := false
			val := ""
			for _, a := range tok.Attr {
				if strings.Contains(strings.ToLower(a.Key), vfC18Canary) {
					pg.canaryAttrs++
				}
				if strings.Contains(strings.ToLower(a.Val), vfC18Canary) {
					pg.reflected = true
				}
				if a.Key == "id" && a.Val == "login_destination_input" {
					isDest = true
				}
				if a.Key == "value" {
					val = a.Val
				}
				if tok.Data == "img" && a.Key == "src" && strings.HasPrefix(a.Val, "data:image/png;base64,") {
					pg.b64 = strings.TrimPrefix(a.Val, "data:image/png;base64,")
					pg.hasB64 = true
				}
			}
			if isDest && tt != xhtml.EndTagToken {
				xvalues = append(xvalues, val)
			}
		case xhtml.TextToken, xhtml.CommentToken:
			if strings.Contains(strings.ToLower(string(z.Text())), vfC18Canary) {
				pg.reflected = true
			}
		}
	}
	if !pg.isHTML {
		return pg
	}
	// raw occurrences of the field
	s := string(body)
	var segs []string
	for off := 0; ; {
		i := strings.Index(s[off:], vfC18InputPrefix)
		if i < 0 {
			break
		}
		start := off + i
		end := strings.IndexByte(s[start:], '\n')
		if end < 0 {
			end = len(s) - start
		}
		segs = append(segs, s[start:start+end])
		off = start + len(vfC18InputPrefix)
	}
	for i, seg := range segs {
		in := vfC18Input{seg: seg, value: "\x00<no matching element>"}
		if i < len(xvalues) {
			in.value = xvalues[i]
		}
		pg.inputs = append(pg.inputs, in)
	}
	for i := len(segs); i < len(xvalues); i++ {
		pg.inputs = append(pg.inputs, vfC18Input{seg: "\x00<no raw field>", value: xvalues[i]})
	}
	return pg
}

// vfC18TokLine: how x/net/html reads the start tag at the head of seg (driver format).
func vfC18TokLine(seg string) string {
	z := xhtml.NewTokenizer(strings.NewReader(seg))
	tt := z.Next()
	if tt != xhtml.StartTagToken && tt != xhtml.SelfClosingTagToken {
		return "none"
	}
	raw := string(z.Raw())
	if !strings.HasSuffix(raw, ">") {
		return "none" // end of input inside the tag
	}
	tok := z.Token()
	var b strings.Builder
	b.WriteString("tag " + vfHex(tok.Data) + " " + vfBool(tt == xhtml.SelfClosingTagToken))
	b.WriteString(" ")
	b.WriteString(itoa(len(tok.Attr)))
	for _, a := range tok.Attr {
		b.WriteString(" " + vfHex(a.Key) + "=" + vfHex(a.Val))
	}
	b.WriteString(" rest " + vfHex(seg[len(raw):]))
	return b.String()
}

func itoa(n int) string {
	if n == 0 {
		return "0"
	}
	var d []byte
	for n > 0 {
		d = append([]byte{byte('0' + n%10)}, d...)
		n /= 10
	}
	return string(d)
}

type vfC18Env struct {
	t        *testing.T
	state    *RuntimeState
	addr     string // service-port-like loopback server
	adminAdr string
}

// send writes raw request bytes to the loopback server and reads one response.
func (e *vfC18Env) send(addr string, raw string) (int, string, []byte, string) {
	conn, err := net.DialTimeout("tcp", addr, 5*time.Second)
	if err != nil {
		return 0, "", nil, "dial: " + err.Error()
	}
	defer conn.Close()
	conn.SetDeadline(time.Now().Add(20 * time.Second))
	if _, err := io.WriteString(conn, raw); err != nil {
		return 0, "", nil, "write: " + err.Error()
	}
	resp, err := http.ReadResponse(bufio.NewReader(conn), nil)
	if err != nil {
		return 0, "", nil, "closed" // handler panicked (net/http recovers and drops the connection)
	}
	defer resp.Body.Close()
	body, _ := io.ReadAll(resp.Body)
	return resp.StatusCode, resp.Header.Get("Content-Type"), body, ""
}

func vfC18Raw(method, target, host string, hdr map[string]string, body string) string {
	return vfC18RawAccept(method, target, host, "text/html", hdr, body)
}

// vfC18RawAccept: accept == "" sends no Accept header at all.
func vfC18RawAccept(method, target, host, accept string, hdr map[string]string, body string) string {
	var b strings.Builder
	b.WriteString(method + " " + target + " HTTP/1.1\r\n")
	b.WriteString("Host: " + host + "\r\n")
	if accept != "" {
		b.WriteString("Accept: " + accept + "\r\n")
	}
	b.WriteString("Connection: close\r\n")
	keys := make([]string, 0, len(hdr))
	for k := range hdr {
		keys = append(keys, k)
	}
	sort.Strings(keys)
	for _, k := range keys {
		b.WriteString(k + ": " + hdr[k] + "\r\n")
	}
	if method == "POST" {
		b.WriteString("Content-Type: application/x-www-form-urlencoded\r\n")
		b.WriteString("Content-Length: " + itoa(len(body)) + "\r\n")
	}
	b.WriteString("\r\n")
	b.WriteString(body)
	return b.String()
}

func (e *vfC18Env) cookie(user string, level int) map[string]string {
	c := vfAuthCookie(e.t, e.state, user, level)
	return map[string]string{"Cookie": c.Name + "=" + c.Value}
}

// mintCookie: an auth cookie value for user at level whose JWT expires lifetime seconds
// from now (negative: a genuine, server-signed session that has expired since), signed with the
// daemon's signer or, with foreign, by a throw-away key the daemon never trusted.
func (e *vfC18Env) mintCookie(user string, level int, lifetime int64, foreign bool) map[string]string {
	if foreign {
		key, err := ecdsa.GenerateKey(elliptic.P256(), rand.Reader)
		if err != nil {
			e.t.Fatal(err)
		}
		e.state.Mutex.Lock()
		own := e.state.Signer
		e.state.Signer = key
		e.state.Mutex.Unlock()
		defer func() {
			e.state.Mutex.Lock()
			e.state.Signer = own
			e.state.Mutex.Unlock()
		}()
	}
	val, err := e.state.genNewSerializedAuthJWT(user, level, lifetime)
	if err != nil {
		e.t.Fatal(err)
	}
	return map[string]string{"Cookie": authCookieName + "=" + val}
}

// session: the Cookie header of a session kind. Live sessions: pw (password only), full, admin,
// autoadmin; none; bad (not a JWT); foreign (well-formed JWT, unknown key); expired* = the same
// genuine credentials presented after their expiry; notyet = genuine, not valid yet.
func (e *vfC18Env) session(kind string) (map[string]string, bool) {
	full := AuthTypePassword | AuthTypeU2F | AuthTypeTOTP
	switch kind {
	case "none":
		return nil, true
	case "bad":
		return map[string]string{"Cookie": authCookieName + "=garbage"}, true
	case "pw":
		return e.cookie("username", AuthTypePassword), true
	case "full":
		return e.cookie("vfuser", full), true
	case "admin":
		return e.cookie("vfadmin", full), true
	case "autoadmin":
		return e.cookie("vfautoadmin", full), true
	case "foreign":
		return e.mintCookie("vfuser", full, 3600, true), true
	case "expired":
		return e.mintCookie("vfuser", full, -3600, false), true
	case "expiredpw":
		return e.mintCookie("username", AuthTypePassword, -3600, false), true
	case "expiredadmin":
		return e.mintCookie("vfadmin", full, -1, false), true
	case "expiredforeign":
		return e.mintCookie("vfuser", full, -3600, true), true
	}
	return nil, false
}

// request sends one request while the daemon is in the given life-cycle state: "ready", or
// "sealed" = the signer is not loaded (between a (re)start and the unsealing of the key).
// The session credential is minted before the daemon is sealed, as a browser would hold it.
func (e *vfC18Env) request(daemon, method, path, query, body, accept, sessionKind string) string {
	target := path
	if query != "" {
		target += "?" + query
	}
	hdr, _ := e.session(sessionKind)
	if daemon == "sealed" {
		e.state.Mutex.Lock()
		signer := e.state.Signer
		e.state.Signer = nil
		e.state.Mutex.Unlock()
		defer func() {
			e.state.Mutex.Lock()
			e.state.Signer = signer
			e.state.Mutex.Unlock()
		}()
	}
	st, ct, rb, errs := e.send(e.addr, vfC18RawAccept(method, target, "keymaster.example", accept, hdr, body))
	if errs != "" {
		return "R 0 0 - - 0 0 0 0 E " + vfHex(errs)
	}
	form, _ := url.ParseQuery(body)
	if q, err := url.ParseQuery(query); err == nil && form != nil {
		for k, v := range q {
			if _, dup := form[k]; !dup {
				form[k] = v
			}
		}
	}
	return e.pageLine(vfC18Scan(st, ct, rb), vfC18Candidates(method, target, form))
}

// vfC18Candidates: the destinations the failure page may legitimately be rendered for, most
// specific first, computed with the real helpers: the POSTed login_destination as filtered by
// getLoginDestination (used when the handler parsed the form before failing), the request URL
// for the three paths that keep it, the profile page.
func vfC18Candidates(method, target string, form url.Values) []string {
	var cands []string
	if method == "POST" && form.Get("login_destination") != "" {
		req := httptest.NewRequest("POST", "/", strings.NewReader(form.Encode()))
		req.Header.Set("Content-Type", "application/x-www-form-urlencoded")
		cands = append(cands, getLoginDestination(req))
	}
	if u, err := url.ParseRequestURI(target); err == nil {
		switch u.Path {
		case idpOpenIDCAuthorizationPath, paths.ShowAuthToken, paths.SendAuthDocument:
			cands = append(cands, u.String())
		}
	}
	return append(cands, profilePath)
}

// pageLine: cands = destinations the page may have been rendered for (nil: the op has none).
// The expected one is the first candidate whose normal form is what x/net/html read back, or
// the first candidate when none matches (which is then reported as a wrong value).
func (e *vfC18Env) pageLine(pg vfC18Page, cands []string) string {
	var b strings.Builder
	b.WriteString("R " + itoa(pg.status) + " " + vfBool(pg.isHTML) + " " + vfHex(pg.ctype) + " " + vfHex(pg.prefix) + " " + itoa(pg.canaryElems) + " " + itoa(pg.canaryAttrs) + " " + vfBool(pg.reflected) + " " + itoa(len(pg.inputs)))
	for _, in := range pg.inputs {
		norm := "\x00<unknown destination>"
		for i, cand := range cands {
			n := ensureHTMLSafeLoginDestination(cand)
			if i == 0 {
				norm = n
			}
			if n == in.value {
				norm = n
				break
			}
		}
		b.WriteString(" I " + vfHex(norm) + " " + vfHex(in.seg) + " " + vfHex(in.value) + " " + vfHex(vfC18TokLine(in.seg)))
	}
	if pg.hasB64 {
		b.WriteString(" B " + vfHex(pg.b64))
	}
	return b.String()
}

func (e *vfC18Env) do(addr, method, target string, hdr map[string]string, form url.Values, cands []string) string {
	body := ""
	if method == "POST" {
		body = form.Encode()
	}
	st, ct, rb, errs := e.send(addr, vfC18Raw(method, target, "keymaster.example", hdr, body))
	if errs != "" {
		return "R 0 0 - - 0 0 0 0 E " + vfHex(errs)
	}
	return e.pageLine(vfC18Scan(st, ct, rb), cands)
}

func (e *vfC18Env) setWebUI(backends ...string) {
	e.state.Mutex.Lock()
	e.state.Config.Base.AllowedAuthBackendsForWebUI = backends
	e.state.Mutex.Unlock()
}

func vfC18Path(id string) string {
	switch id {
	case "oidc":
		return idpOpenIDCAuthorizationPath
	case "showtoken":
		return paths.ShowAuthToken
	case "senddoc":
		return paths.SendAuthDocument
	case "profile":
		return profilePath
	case "users":
		return usersPath
	case "newtotp":
		return totpGeneratNewPath
	case "login":
		return proto.LoginPath
	}
	return ""
}

func TestVerifC18(t *testing.T) {
	vio := vfOpen(t)
	defer vio.close()
	state, cleanup := vfNewState(t)
	defer cleanup()
	state.isAdminCache = admincache.New(5 * time.Minute)
	state.Config.Base.AdminUsers = []string{"vfadmin"}
	state.Config.Base.EnableLocalTOTP = true
	state.HostIdentity = "keymaster.example"
	state.Config.Base.WebauthTokenForCliLifetime = time.Minute

	state.Config.Base.AutomationUsers = []string{"role1"}
	state.Config.Base.AutomationAdmins = []string{"vfautoadmin"}
	// an OpenID Connect client registered by domain: any path below it is an acceptable redirect_uri
	state.Config.OpenIDConnectIDP.Client = []OpenIDConnectClientConfig{
		{ClientID: "vfclient", ClientSecret: "vfsecret", AllowedRedirectDomains: []string{"app.example.com"}}}
	u2fAppID = "https://" + state.HostIdentity
	u2fTrustedFacets = []string{u2fAppID}

	// every route main() registers on the service port (table regenerated from the source)
	mux := http.NewServeMux()
	seen := map[string]bool{}
	for _, rt := range vfRouteTable(state) {
		if rt.service && !seen[rt.path] {
			seen[rt.path] = true
			mux.HandleFunc(rt.path, rt.h)
		}
	}
	for path, h := range map[string]http.HandlerFunc{proto.LoginPath: state.loginHandler, profilePath: state.profileHandler,
		usersPath: state.usersHandler, generateBoostrapOTPPath: state.generateBootstrapOTP,
		idpOpenIDCAuthorizationPath: state.idpOpenIDCAuthorizationHandler, totpGeneratNewPath: state.GenerateNewTOTP,
		totpValidateNewPath: state.validateNewTOTP, paths.SendAuthDocument: state.SendAuthDocumentHandler,
		paths.ShowAuthToken: state.ShowAuthTokenHandler, bootstrapOtpAuthPath: state.BootstrapOtpAuthHandler,
		"/": state.defaultPathHandler} {
		if !seen[path] {
			seen[path] = true
			mux.HandleFunc(path, h)
		}
	}
	srv := httptest.NewServer(instrumentedwriter.NewLoggingHandler(mux, httpLogger{}))
	defer srv.Close()
	admin := httptest.NewServer(newAdminDashboard(nil, false))
	defer admin.Close()
	env := &vfC18Env{t: t, state: state, addr: strings.TrimPrefix(srv.URL, "http://"),
		adminAdr: strings.TrimPrefix(admin.URL, "http://")}
	twoFA := []string{proto.AuthTypeU2F, proto.AuthTypeTOTP}
	full := AuthTypePassword | AuthTypeU2F | AuthTypeTOTP

	for _, line := range vio.ops {
		f := strings.Fields(line)
		if len(f) == 0 {
			vio.emit("bad-op")
			continue
		}
		args := make([]string, 0, len(f))
		ok := true
		for _, h := range f[1:] {
			s, good := vfUnhex(h)
			if !good {
				ok = false
			}
			args = append(args, s)
		}
		need := map[string]int{"loginfail": 3, "login2fa": 1, "root": 1, "urlget": 3, "urlpost": 4,
			"profile": 4, "users": 1, "newtotp": 1, "bootstrap": 1, "showtoken": 1, "direct": 3,
			"direct2fa": 1, "admin": 1, "esc": 1, "tok": 1, "b64": 1, "req": 6, "u2freg": 4, "sreq": 7}
		if n, known := need[f[0]]; !known || len(args) != n {
			ok = false
		}
		if !ok {
			vio.emit("bad-op")
			continue
		}
		var outs []string
		switch f[0] {
		case "loginfail": // <dest> <user> <username>: wrong password, Accept: text/html
			env.setWebUI(twoFA...)
			form := url.Values{"login_destination": {args[0]}, "user": {args[1]}, "username": {args[2]}, "password": {"wrong"}}
			if args[2] == "" {
				form.Del("username")
			}
			dest := vfC18Candidates("POST", proto.LoginPath, form)
			outs = append(outs, env.do(env.addr, "POST", proto.LoginPath, nil, form, dest))
			// same request carrying a password-level session: the 2FA page is served instead
			outs = append(outs, env.do(env.addr, "POST", proto.LoginPath, env.cookie("username", AuthTypePassword), form, dest))
		case "login2fa": // <dest>: correct password, second factor required
			env.setWebUI(twoFA...)
			prof := &userProfile{BootstrapOTP: bootstrapOTPData{ExpiresAt: time.Now().Add(time.Minute), Sha512Hash: testBootstrapOtpHash[:]}}
			if err := state.SaveUserProfile("username", prof); err != nil {
				t.Fatal(err)
			}
			form := url.Values{"login_destination": {args[0]}, "username": {"username"}, "password": {"password"}}
			dest := vfC18Candidates("POST", proto.LoginPath, form)
			outs = append(outs, env.do(env.addr, "POST", proto.LoginPath, nil, form, dest))
		case "root": // <user>: landing page with a proposed user name
			env.setWebUI(twoFA...)
			q := url.Values{"user": {args[0]}}
			outs = append(outs, env.do(env.addr, "GET", "/?"+q.Encode(), nil, nil, []string{profilePath}))
		case "urlget": // <pathid> <raw query> <cookie kind>
			env.setWebUI(twoFA...)
			target := vfC18Path(args[0]) + "?" + args[1]
			var hdr map[string]string
			switch args[2] {
			case "pw":
				hdr = env.cookie("username", AuthTypePassword)
			case "bad":
				hdr = map[string]string{"Cookie": authCookieName + "=garbage"}
			}
			outs = append(outs, env.do(env.addr, "GET", target, hdr, nil, vfC18Candidates("GET", target, nil)))
		case "urlpost": // <pathid> <raw query> <dest> <cookie kind>
			env.setWebUI(twoFA...)
			target := vfC18Path(args[0]) + "?" + args[1]
			form := url.Values{"login_destination": {args[2]}}
			var hdr map[string]string
			if args[3] == "pw" {
				hdr = env.cookie("username", AuthTypePassword)
			}
			outs = append(outs, env.do(env.addr, "POST", target, hdr, form, vfC18Candidates("POST", target, form)))
		case "profile": // <user> <totp name> <webauthn name> <attestation type>
			env.setWebUI(twoFA...)
			user := args[0]
			if user == "" {
				user = "vfuser"
			}
			prof := &userProfile{
				TOTPAuthData: map[int64]*totpAuthData{1: {Enabled: true, Name: args[1]}, 2: {Enabled: false, Name: args[2]}},
				WebauthnData: map[int64]*webauthAuthData{1: {Enabled: true, Name: args[2],
					Credential: webauthn.Credential{ID: []byte{1}, AttestationType: args[3]}},
					2: {Enabled: false, Name: args[1]}},
				BootstrapOTP: bootstrapOTPData{ExpiresAt: time.Now().Add(time.Minute), Sha512Hash: testBootstrapOtpHash[:]},
			}
			if err := state.SaveUserProfile(user, prof); err != nil {
				outs = append(outs, "R 0 0 - - 0 0 0 0 E "+vfHex("save: "+err.Error()))
				break
			}
			outs = append(outs, env.do(env.addr, "GET", profilePath, env.cookie(user, full), nil, nil))
			// an administrator looking at that user's profile
			outs = append(outs, env.do(env.addr, "GET", profilePath+url.PathEscape(user), env.cookie("vfadmin", full), nil, nil))
			state.DeleteUserProfile(user)
		case "users": // <user name stored in the DB>
			env.setWebUI(twoFA...)
			if args[0] != "" {
				if err := state.SaveUserProfile(args[0], &userProfile{}); err != nil {
					outs = append(outs, "R 0 0 - - 0 0 0 0 E "+vfHex("save: "+err.Error()))
					break
				}
			}
			outs = append(outs, env.do(env.addr, "GET", usersPath, env.cookie("vfadmin", full), nil, nil))
			if args[0] != "" {
				state.DeleteUserProfile(args[0])
			}
		case "newtotp": // <authenticated user name>
			env.setWebUI(twoFA...)
			user := args[0]
			if user == "" {
				user = "vfuser"
			}
			outs = append(outs, env.do(env.addr, "GET", totpGeneratNewPath, env.cookie(user, full), nil, nil))
			// wrong code afterwards: error page of validateNewTOTP
			outs = append(outs, env.do(env.addr, "POST", totpValidateNewPath, env.cookie(user, full), url.Values{"OTP": {"000000"}}, nil))
			state.DeleteUserProfile(user)
		case "bootstrap": // <username form value>
			env.setWebUI(twoFA...)
			state.SaveUserProfile("plainuser", &userProfile{})
			form := url.Values{"username": {args[0]}}
			outs = append(outs, env.do(env.addr, "POST", generateBoostrapOTPPath, env.cookie("vfadmin", full), form, []string{profilePath}))
		case "showtoken": // <authenticated user name>
			env.setWebUI(twoFA...)
			user := args[0]
			if user == "" {
				user = "vfuser"
			}
			outs = append(outs, env.do(env.addr, "GET", paths.ShowAuthToken, env.cookie(user, full), nil, nil))
		case "direct": // <default user name> <dest> <error message>: the page writer itself
			rr, p := vfServe(func(w http.ResponseWriter, r *http.Request) {
				state.writeHTMLLoginPage(w, r, http.StatusUnauthorized, args[0], args[1], args[2])
			}, httptest.NewRequest("GET", "/", nil))
			if p != nil {
				outs = append(outs, "R 0 0 - - 0 0 0 0 E "+vfHex("panic"))
			} else {
				outs = append(outs, env.pageLine(vfC18Scan(rr.Code, rr.Header().Get("Content-Type"), rr.Body.Bytes()), []string{args[1]}))
			}
		case "direct2fa": // <dest>: every form of the second factor page
			state.Mutex.Lock()
			state.Config.SymantecVIP.Enabled = true
			state.Config.Okta.Enable2FA = true
			state.Mutex.Unlock()
			req := httptest.NewRequest("GET", "/", nil)
			req.Header.Set("User-Agent", "Mozilla/5.0 (X11; Linux x86_64) AppleWebKit/537.36 (KHTML, like Gecko) Chrome/120.0 Safari/537.36")
			rr, p := vfServe(func(w http.ResponseWriter, r *http.Request) {
				state.writeHTML2FAAuthPage(w, r, args[0], true, true)
			}, req)
			state.Mutex.Lock()
			state.Config.SymantecVIP.Enabled = false
			state.Config.Okta.Enable2FA = false
			state.Mutex.Unlock()
			if p != nil {
				outs = append(outs, "R 0 0 - - 0 0 0 0 E "+vfHex("panic"))
			} else {
				outs = append(outs, env.pageLine(vfC18Scan(rr.Code, rr.Header().Get("Content-Type"), rr.Body.Bytes()), []string{args[0]}))
			}
		case "u2freg": // <user> <attestation subject CN> <attestation issuer CN, empty: self-issued> <token name>
			// a software U2F token enrolled through the real /u2f/Register* handlers (the daemon
			// skips attestation verification, so the certificate is whatever the client sends),
			// then every page that shows the registration
			env.setWebUI(twoFA...)
			user := args[0]
			if user == "" {
				user = "vfu2fuser"
			}
			state.DeleteUserProfile(user)
			ck := env.cookie(user, full)
			regErr := env.u2fRegister(user, ck, args[1], args[2])
			if regErr != "" {
				outs = append(outs, "R 0 0 - - 0 0 0 0 E "+vfHex("u2freg: "+regErr))
				break
			}
			if args[3] != "" { // rename through the real token manager is validated; store the name directly
				if prof, ok, _, err := state.LoadUserProfile(user); err == nil && ok {
					for _, d := range prof.U2fAuthData {
						d.Name = args[3]
					}
					state.SaveUserProfile(user, prof)
				}
			}
			outs = append(outs, env.do(env.addr, "GET", profilePath, ck, nil, nil))
			outs = append(outs, env.do(env.addr, "GET", profilePath+url.PathEscape(user), env.cookie("vfadmin", full), nil, nil))
			state.DeleteUserProfile(user)
		case "req": // <method> <path> <raw query> <form body> <Accept or empty> <cookie kind>: any route, any error path
			env.setWebUI(twoFA...)
			outs = append(outs, env.request("ready", args[0], args[1], args[2], args[3], args[4], args[5]))
		case "sreq": // <daemon state> <method> <path> <raw query> <form body> <Accept or empty> <session kind>
			// the same request in every life-cycle state of the daemon (ready / sealed) and of the
			// presented session credential (absent, garbage, foreign key, live, expired)
			env.setWebUI(twoFA...)
			if args[0] != "ready" && args[0] != "sealed" {
				vio.emit("bad-op")
				continue
			}
			if _, known := env.session(args[6]); !known {
				vio.emit("bad-op")
				continue
			}
			outs = append(outs, env.request(args[0], args[1], args[2], args[3], args[4], args[5], args[6]))
		case "admin": // <Host header>: status page of the admin port (third-party header writer)
			st, ct, rb, errs := env.send(env.adminAdr, vfC18Raw("GET", "/", args[0], nil, ""))
			if errs != "" {
				outs = append(outs, "R 0 0 - - 0 0 0 0 E "+vfHex(errs))
			} else {
				outs = append(outs, env.pageLine(vfC18Scan(st, ct, rb), nil))
			}
		case "esc":
			vio.emit("esc %s %s", vfHex(stdhtml.EscapeString(args[0])), vfHex(htmltmpl.HTMLEscapeString(args[0])))
			continue
		case "tok":
			vio.emit("tok %s", vfC18TokLine(args[0]))
			continue
		case "b64":
			vio.emit("b64 %s", vfHex(base64.StdEncoding.EncodeToString([]byte(args[0]))))
			continue
		}
		vio.emit("%s %d %s", f[0], len(outs), strings.Join(outs, " "))
	}
}

// u2fRegister enrols a software token for user through /u2f/RegisterRequest/ and
// /u2f/RegisterResponse/. The attestation certificate carries subjectCN and is issued by a
// throw-away CA named issuerCN (self-issued when issuerCN is empty). Returns "" on success.
func (e *vfC18Env) u2fRegister(user string, cookie map[string]string, subjectCN, issuerCN string) string {
	upath := url.PathEscape(user)
	st, _, body, errs := e.send(e.addr, vfC18RawAccept("GET", u2fRegustisterRequestPath+upath, "keymaster.example", "application/json", cookie, ""))
	if errs != "" || st != 200 {
		return "request " + itoa(st) + " " + errs
	}
	var wr struct {
		AppID            string `json:"appId"`
		RegisterRequests []struct {
			Version   string `json:"version"`
			Challenge string `json:"challenge"`
		} `json:"registerRequests"`
	}
	if err := json.Unmarshal(body, &wr); err != nil || len(wr.RegisterRequests) == 0 {
		return "request body"
	}
	tokenKey, _ := ecdsa.GenerateKey(elliptic.P256(), rand.Reader)
	attKey, _ := ecdsa.GenerateKey(elliptic.P256(), rand.Reader)
	leaf := &x509.Certificate{SerialNumber: big.NewInt(2), Subject: pkix.Name{CommonName: subjectCN},
		NotBefore: time.Now().Add(-time.Hour), NotAfter: time.Now().Add(24 * time.Hour)}
	parent, signKey := leaf, attKey
	if issuerCN != "" {
		caKey, _ := ecdsa.GenerateKey(elliptic.P256(), rand.Reader)
		parent = &x509.Certificate{SerialNumber: big.NewInt(1), Subject: pkix.Name{CommonName: issuerCN},
			NotBefore: time.Now().Add(-time.Hour), NotAfter: time.Now().Add(24 * time.Hour), IsCA: true,
			BasicConstraintsValid: true, KeyUsage: x509.KeyUsageCertSign}
		signKey = caKey
	}
	der, err := x509.CreateCertificate(rand.Reader, leaf, parent, &attKey.PublicKey, signKey)
	if err != nil {
		return "certificate: " + err.Error()
	}
	b64 := func(b []byte) string { return strings.TrimRight(base64.URLEncoding.EncodeToString(b), "=") }
	cd, _ := json.Marshal(map[string]string{"typ": "navigator.id.finishEnrollment", "challenge": wr.RegisterRequests[0].Challenge, "origin": wr.AppID})
	pub := elliptic.Marshal(elliptic.P256(), tokenKey.PublicKey.X, tokenKey.PublicKey.Y)
	kh := sha256.Sum256(pub)
	app := sha256.Sum256([]byte(wr.AppID))
	chal := sha256.Sum256(cd)
	msg := append([]byte{0}, app[:]...)
	msg = append(msg, chal[:]...)
	msg = append(msg, kh[:]...)
	msg = append(msg, pub...)
	h := sha256.Sum256(msg)
	r, sg, err := ecdsa.Sign(rand.Reader, attKey, h[:])
	if err != nil {
		return "sign"
	}
	sig, _ := asn1.Marshal(struct{ R, S *big.Int }{r, sg})
	raw := append([]byte{0x05}, pub...)
	raw = append(raw, byte(len(kh)))
	raw = append(raw, kh[:]...)
	raw = append(raw, der...)
	raw = append(raw, sig...)
	resp, _ := json.Marshal(map[string]string{"version": "U2F_V2", "registrationData": b64(raw), "clientData": b64(cd)})
	st, _, body, errs = e.send(e.addr, vfC18RawAccept("POST", u2fRegisterRequesponsePath+upath, "keymaster.example", "application/json", cookie, string(resp)))
	if errs != "" || st != 200 {
		return "response " + itoa(st) + " " + errs + " " + string(body)
	}
	return ""
}
