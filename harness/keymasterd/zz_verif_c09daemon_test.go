package main

// The real daemon binary (go build of the working tree's cmd/keymasterd, started with a generated
// configuration whose CA key is passphrase-protected), observed from outside: main()'s wiring —
// which listener is up when, what the readiness routes say while sealed, after a wrong and after the
// right passphrase — is not reachable by calling handlers in-process.

import (
	"bufio"
	"crypto/tls"
	"fmt"
	"io/ioutil"
	"net"
	"net/http"
	neturl "net/url"
	"os"
	"os/exec"
	"path/filepath"
	"strings"
	"testing"
	"time"
)

func vfDaemonGet(client *http.Client, url string) string {
	resp, err := client.Get(url)
	if err != nil {
		return "err"
	}
	defer resp.Body.Close()
	ioutil.ReadAll(resp.Body)
	return fmt.Sprintf("%d", resp.StatusCode)
}

func vfPortOpen(addr string) string {
	c, err := net.DialTimeout("tcp", addr, 500*time.Millisecond)
	if err != nil {
		return "closed"
	}
	c.Close()
	return "open"
}

// TestVerifC09Daemon: ops `daemon` ↦ three lines worth of observations joined by ` | `:
//   sealed readyz=<s> readiness=<s> service=<open|closed> | wrong inject=<s> readyz=… | right inject=<s> readyz=… x509ca=<n certs>
func TestVerifC09Daemon(t *testing.T) {
	vio := vfOpen(t)
	defer vio.close()
	for _, line := range vio.ops {
		if strings.TrimSpace(line) != "daemon" {
			vio.emit("bad-op")
			continue
		}
		vio.emit("%s", vfRunDaemon(t))
	}
}

func vfRunDaemon(t *testing.T) string {
	if vfPortOpen("127.0.0.1:6920") == "open" || vfPortOpen("127.0.0.1:443") == "open" {
		return "skipped ports-in-use"
	}
	dir, err := ioutil.TempDir("", "vfdaemon")
	if err != nil {
		return "harness-error tempdir"
	}
	defer os.RemoveAll(dir)
	cfgFile := filepath.Join(dir, "config.yml")
	reader := bufio.NewReader(strings.NewReader(dir + "\n\n\n\n\n\n\n\n\n\n\n\n\n\n\n\n"))
	if err := generateNewConfigInternal(reader, cfgFile, 2048, []byte(vfCfgPassphrase)); err != nil {
		return "harness-error generate " + err.Error()
	}
	bin := filepath.Join(dir, "keymasterd.bin")
	build := exec.Command("go", "build", "-o", bin, ".")
	if out, err := build.CombinedOutput(); err != nil {
		return "harness-error build " + strings.Join(strings.Fields(string(out)), "_")
	}
	logf, _ := os.Create(filepath.Join(dir, "daemon.log"))
	cmd := exec.Command(bin, "-config", cfgFile, "-logDir", filepath.Join(dir, "log"), "-alsoLogToStderr")
	// shared_data_directory is unset in a generated configuration: templates and static files are found relative
	// to the working directory, which is the package directory here
	if wd, err := os.Getwd(); err == nil {
		cmd.Dir = wd
	}
	cmd.Stdout, cmd.Stderr = logf, logf
	if err := cmd.Start(); err != nil {
		return "harness-error start"
	}
	defer func() { cmd.Process.Kill(); cmd.Wait() }()
	etc := filepath.Join(dir, "etc/keymaster")
	clientCert, err := tls.LoadX509KeyPair(filepath.Join(etc, "adminClient.pem"), filepath.Join(etc, "adminClient.key"))
	if err != nil {
		return "harness-error admin-client-cert " + err.Error()
	}
	anon := &http.Client{Timeout: 5 * time.Second, Transport: &http.Transport{TLSClientConfig: &tls.Config{InsecureSkipVerify: true}}}
	admin := &http.Client{Timeout: 20 * time.Second, Transport: &http.Transport{TLSClientConfig: &tls.Config{InsecureSkipVerify: true,
		Certificates: []tls.Certificate{clientCert}}}}
	up := false
	for i := 0; i < 150; i++ {
		if vfPortOpen("127.0.0.1:6920") == "open" {
			up = true
			break
		}
		time.Sleep(200 * time.Millisecond)
	}
	if !up {
		b, _ := ioutil.ReadFile(filepath.Join(dir, "daemon.log"))
		tail := string(b)
		if len(tail) > 1500 {
			tail = tail[len(tail)-1500:]
		}
		return "harness-error admin-port-never-came-up " + strings.Join(strings.Fields(tail), "_")
	}
	time.Sleep(300 * time.Millisecond)
	observe := func() string {
		return fmt.Sprintf("readyz=%s readiness=%s service=%s", vfDaemonGet(anon, "https://127.0.0.1:6920"+readyzPath),
			vfDaemonGet(anon, "https://127.0.0.1:6920/readiness"), vfPortOpen("127.0.0.1:443"))
	}
	inject := func(pass string) string {
		resp, err := admin.PostForm("https://127.0.0.1:6920"+secretInjectorPath, neturl.Values{"ssh_ca_password": {pass}})
		if err != nil {
			return "err"
		}
		defer resp.Body.Close()
		ioutil.ReadAll(resp.Body)
		return fmt.Sprintf("%d", resp.StatusCode)
	}
	out := "sealed " + observe()
	out += " | wrong inject=" + inject(vfCfgPassphrase+"x") + " " + observe()
	out += " | right inject=" + inject(vfCfgPassphrase)
	for i := 0; i < 100 && vfPortOpen("127.0.0.1:443") != "open"; i++ {
		time.Sleep(100 * time.Millisecond)
	}
	time.Sleep(300 * time.Millisecond)
	out += " " + observe()
	// the CA bundle the service port now publishes
	n := "err"
	if resp, err := anon.Get("https://127.0.0.1:443" + publicPath + "x509ca"); err == nil {
		b, _ := ioutil.ReadAll(resp.Body)
		resp.Body.Close()
		n = fmt.Sprintf("%d", strings.Count(string(b), "BEGIN CERTIFICATE"))
	}
	out += " x509ca=" + n
	return out
}
