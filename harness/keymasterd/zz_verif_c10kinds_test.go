package main

// C10, round 5: every GENUINE token kind the daemon mints, presented in every credential slot of every
// route main() registers. The tokens are produced by the real code (session cookie, CLI token, signed
// storage record, and — through the authorization and token endpoints — authorization code, access token
// with and without a requested audience, ID token); variants are the same payload with ONE claim removed,
// emptied or moved to an extreme value, re-signed with the daemon's signer (a token of an older/newer
// release, or of another deployment sharing the key, looks like that). Looked for: recovered panics.

import (
	"bytes"
	"encoding/base64"
	"encoding/json"
	"fmt"
	"net/http"
	"net/http/httptest"
	"net/url"
	"sort"
	"strings"
	"time"

	"github.com/go-jose/go-jose/v4"
)

const (
	vfKindsClient   = "vfkinds"
	vfKindsSecret   = "vfkinds-secret"
	vfKindsRedirect = "https://rp.example.com/cb"
)

type vfKinds struct {
	tokens map[string]string // kind -> genuine compact token
	err    string
}

func (env *vfC10Env) oidcFlow(audience string) (code, unusedCode, access, id string, err error) {
	state := env.state
	authz := func() (string, error) {
		form := url.Values{}
		form.Add("scope", "openid")
		form.Add("response_type", "code")
		form.Add("client_id", vfKindsClient)
		form.Add("redirect_uri", vfKindsRedirect)
		form.Add("nonce", "123456789")
		form.Add("state", "vfstate")
		if audience != "" {
			form.Add("audience", audience)
		}
		req := httptest.NewRequest("POST", idpOpenIDCAuthorizationPath, strings.NewReader(form.Encode()))
		req.Header.Set("Content-Type", "application/x-www-form-urlencoded")
		req.AddCookie(env.userCook)
		rr, p := vfServe(state.idpOpenIDCAuthorizationHandler, req)
		if p != nil || rr.Code != http.StatusFound {
			return "", fmt.Errorf("authorization endpoint: status %d panic %v", rr.Code, p)
		}
		loc, err := url.Parse(rr.Header().Get("Location"))
		if err != nil || loc.Query().Get("code") == "" {
			return "", fmt.Errorf("authorization endpoint: no code in %q", rr.Header().Get("Location"))
		}
		return loc.Query().Get("code"), nil
	}
	if code, err = authz(); err != nil {
		return
	}
	if unusedCode, err = authz(); err != nil {
		return
	}
	form := url.Values{}
	form.Add("grant_type", "authorization_code")
	form.Add("redirect_uri", vfKindsRedirect)
	form.Add("code", code)
	req := httptest.NewRequest("POST", idpOpenIDCTokenPath, strings.NewReader(form.Encode()))
	req.Header.Set("Content-Type", "application/x-www-form-urlencoded")
	req.SetBasicAuth(vfKindsClient, vfKindsSecret)
	rr, p := vfServe(state.idpOpenIDCTokenHandler, req)
	if p != nil || rr.Code != http.StatusOK {
		err = fmt.Errorf("token endpoint: status %d panic %v", rr.Code, p)
		return
	}
	var tr tokenResponse
	if err = json.Unmarshal(rr.Body.Bytes(), &tr); err != nil {
		return
	}
	if tr.AccessToken == "" || tr.IDToken == "" {
		err = fmt.Errorf("token endpoint: empty tokens")
	}
	return code, unusedCode, tr.AccessToken, tr.IDToken, err
}

// mintKinds asks the real code for one token of every kind it hands out
func (env *vfC10Env) mintKinds() *vfKinds {
	state := env.state
	k := &vfKinds{tokens: map[string]string{}}
	fail := func(what string, err error) *vfKinds {
		k.err = strings.Join(strings.Fields(what+": "+err.Error()), "_")
		return k
	}
	state.Config.OpenIDConnectIDP.Client = append(state.Config.OpenIDConnectIDP.Client, OpenIDConnectClientConfig{
		ClientID: vfKindsClient, ClientSecret: vfKindsSecret, AllowClientChosenAudiences: true,
		AllowedRedirectDomains: []string{"example.com"}})
	if state.Config.Base.WebauthTokenForCliLifetime == 0 {
		state.Config.Base.WebauthTokenForCliLifetime = time.Hour
	}
	k.tokens["cookie"] = env.userCook.Value
	k.tokens["cookie_admin"] = env.admCook.Value
	cli, err := state.generateAuthJWT("username")
	if err != nil {
		return fail("cli token", err)
	}
	k.tokens["cli"] = cli
	stor, err := state.genNewSerializedStorageStringDataJWT("username", 1, "some stored data", time.Now().Unix()+3600)
	if err != nil {
		return fail("storage record", err)
	}
	k.tokens["storage"] = stor
	_, unused, access, id, err := env.oidcFlow("")
	if err != nil {
		return fail("oidc flow", err)
	}
	k.tokens["code"], k.tokens["access"], k.tokens["id"] = unused, access, id
	_, unused, access, _, err = env.oidcFlow("https://api.example.com")
	if err != nil {
		return fail("oidc flow with audience", err)
	}
	k.tokens["code_aud"], k.tokens["access_aud"] = unused, access
	return k
}

// variant of a genuine token: "genuine", or "<how>:<claim>" with how ∈ drop | empty | lo | hi, re-signed with the
// daemon's signer. Returns ok=false when the variant does not change the payload (claim absent / wrong JSON type).
func (env *vfC10Env) tokenVariant(tok, variant string) (string, bool, error) {
	if variant == "genuine" {
		return tok, true, nil
	}
	f := strings.SplitN(variant, ":", 2)
	if len(f) != 2 {
		return "", false, fmt.Errorf("bad variant")
	}
	segs := strings.Split(tok, ".")
	if len(segs) != 3 {
		return "", false, fmt.Errorf("not a compact token")
	}
	payload, err := base64.RawURLEncoding.DecodeString(segs[1])
	if err != nil {
		return "", false, err
	}
	claims := map[string]json.RawMessage{}
	if err := json.Unmarshal(payload, &claims); err != nil {
		return "", false, err
	}
	old, present := claims[f[1]]
	if !present {
		return "", false, nil
	}
	first := bytes.TrimSpace(old)[0]
	isNum := first == '-' || (first >= '0' && first <= '9')
	switch f[0] {
	case "drop":
		delete(claims, f[1])
	case "empty":
		var z string
		switch {
		case first == '"':
			z = `""`
		case first == '[':
			z = `[]`
		case first == '{':
			z = `{}`
		case isNum:
			z = `0`
		default:
			z = `null`
		}
		if z == string(bytes.TrimSpace(old)) {
			return "", false, nil
		}
		claims[f[1]] = json.RawMessage(z)
	case "lo":
		if !isNum {
			return "", false, nil
		}
		claims[f[1]] = json.RawMessage(`1`)
	case "hi":
		if !isNum {
			return "", false, nil
		}
		claims[f[1]] = json.RawMessage(`4102444800000`)
	default:
		return "", false, fmt.Errorf("bad variant")
	}
	out, err := json.Marshal(claims)
	if err != nil {
		return "", false, err
	}
	sigAlgo, err := publicToPreferedJoseSigAlgo(env.state.Signer.Public())
	if err != nil {
		return "", false, err
	}
	signer, err := jose.NewSigner(jose.SigningKey{Algorithm: sigAlgo, Key: env.state.Signer}, (&jose.SignerOptions{}).WithType("JWT"))
	if err != nil {
		return "", false, err
	}
	obj, err := signer.Sign(out)
	if err != nil {
		return "", false, err
	}
	s, err := obj.CompactSerialize()
	return s, err == nil, err
}

// tokSlot presents tok in one credential slot to every registered route (GET and POST) and returns
// "n=<requests> panics=<k> st=<status:count,…> [first=<path>|<method>|<hex panic> routes=<;-joined>]".
//
//	cookie  the session cookie
//	bearer  Authorization: Bearer
//	form    every form/query value a handler reads a token from (token, code, access_token, auth_cookie), with a
//	        valid session cookie of the user and the client's credentials, so that the value is reached
func (env *vfC10Env) tokSlot(tok, slot, b64public string) string {
	state := env.state
	n, panics := 0, 0
	first := ""
	var routes []string
	statuses := map[string]int{}
	for _, rt := range vfRouteTable(state) {
		path := rt.path
		if strings.HasSuffix(path, "/") {
			path += "username"
		}
		for _, method := range []string{"GET", "POST"} {
			form := url.Values{}
			form.Add("pubkey", b64public)
			if slot == "form" {
				for _, name := range []string{"token", "code", "access_token", authCookieName} {
					form.Add(name, tok)
				}
				form.Add("port", "12345")
				form.Add("grant_type", "authorization_code")
				form.Add("redirect_uri", vfKindsRedirect)
				form.Add("client_id", vfKindsClient)
				form.Add("client_secret", vfKindsSecret)
			}
			var req *http.Request
			if method == "POST" {
				req = httptest.NewRequest("POST", path, strings.NewReader(form.Encode()))
				req.Header.Set("Content-Type", "application/x-www-form-urlencoded")
			} else if slot == "form" {
				req = httptest.NewRequest("GET", path+"?"+form.Encode(), nil)
			} else {
				req = httptest.NewRequest("GET", path, nil)
			}
			req.RemoteAddr = "10.1.2.3:4000"
			switch slot {
			case "cookie":
				req.Header.Set("Cookie", authCookieName+"="+tok)
			case "bearer":
				req.Header.Set("Authorization", "Bearer "+tok)
			case "form":
				req.AddCookie(env.userCook)
			default:
				return "bad-op"
			}
			n++
			rr, p := vfServe(rt.h, req)
			if p != nil {
				panics++
				statuses["PANIC"]++
				routes = append(routes, rt.path+"|"+method)
				if first == "" {
					first = rt.path + "|" + method + "|" + vfHex(fmt.Sprint(p))
				}
				continue
			}
			statuses[fmt.Sprint(rr.Code)]++
		}
	}
	var st []string
	for k, v := range statuses {
		st = append(st, fmt.Sprintf("%s:%d", k, v))
	}
	sort.Strings(st)
	out := fmt.Sprintf("n=%d panics=%d st=%s", n, panics, strings.Join(st, ","))
	if panics > 0 {
		out += " first=" + first + " routes=" + strings.Join(routes, ";")
	}
	return out
}

// op "tokslot <kind|control> <variant> <slot>"
func (env *vfC10Env) tokSlotOp(kind, variant, slot, b64public string) string {
	if kind == "control" {
		return env.tokSlot("x", slot, b64public)
	}
	if env.kinds == nil {
		env.kinds = env.mintKinds()
	}
	if env.kinds.err != "" {
		return "mint-error " + env.kinds.err
	}
	tok, ok := env.kinds.tokens[kind]
	if !ok {
		return "bad-op"
	}
	v, changed, err := env.tokenVariant(tok, variant)
	if err != nil {
		return "bad-op"
	}
	if !changed {
		return "n=0 panics=0 st=-"
	}
	return env.tokSlot(v, slot, b64public)
}
