package main

import (
	"bytes"
	"crypto/dsa"
	"crypto/ecdh"
	"crypto/ecdsa"
	"crypto/ed25519"
	"crypto/elliptic"
	"crypto/rand"
	"crypto/rsa"
	"crypto/tls"
	"crypto/x509"
	"crypto/x509/pkix"
	"encoding/asn1"
	"encoding/base64"
	"encoding/pem"
	"fmt"
	"io"
	"math/big"
	"mime/multipart"
	"net"
	"net/http"
	"net/http/httptest"
	"net/url"
	"regexp"
	"strconv"
	"strings"
	"testing"
	"time"

	"github.com/Cloud-Foundations/keymaster/lib/certgen"
	"github.com/Cloud-Foundations/keymaster/lib/server/aws_identity_cert"
	"github.com/Cloud-Foundations/keymaster/lib/webapi/v0/proto"
	"github.com/go-jose/go-jose/v4"
	"golang.org/x/crypto/ssh"
)

// ----------------------------------------------------------------------------- key material

type vfKeyCache struct {
	ec  map[int]*ecdsa.PrivateKey
	ed  ed25519.PublicKey
	rsa map[string]*rsa.PublicKey
}

var vfKeys = vfKeyCache{ec: map[int]*ecdsa.PrivateKey{}, rsa: map[string]*rsa.PublicKey{}}

// an RSA public key with a modulus of exactly `bits` bits and exponent e. The modulus is a fixed odd
// number, not a product of two primes: no parser, strength test or certificate encoder on the issuing
// paths looks at anything but its size (which is the point of the property), and it costs nothing.
func vfRSAPub(bits, e int) *rsa.PublicKey {
	k := fmt.Sprintf("%d:%d", bits, e)
	if p, ok := vfKeys.rsa[k]; ok {
		return p
	}
	n := new(big.Int).Lsh(big.NewInt(1), uint(bits-1))
	filler := new(big.Int).Lsh(big.NewInt(0x5a5a5a5a5a5a5a5), uint(bits/2))
	filler.Mod(filler, n)
	n.Or(n, filler)
	n.Or(n, big.NewInt(1))
	p := &rsa.PublicKey{N: n, E: e}
	vfKeys.rsa[k] = p
	return p
}

func vfECPub(bits int) *ecdsa.PublicKey {
	if k, ok := vfKeys.ec[bits]; ok {
		return &k.PublicKey
	}
	var c elliptic.Curve
	switch bits {
	case 224:
		c = elliptic.P224()
	case 256:
		c = elliptic.P256()
	case 384:
		c = elliptic.P384()
	default:
		c = elliptic.P521()
	}
	k, err := ecdsa.GenerateKey(c, rand.Reader)
	if err != nil {
		panic(err)
	}
	vfKeys.ec[bits] = k
	return &k.PublicKey
}

func vfEdPub() ed25519.PublicKey {
	if vfKeys.ed == nil {
		pub, _, err := ed25519.GenerateKey(rand.Reader)
		if err != nil {
			panic(err)
		}
		vfKeys.ed = pub
	}
	return vfKeys.ed
}

// fixed DSA public key with a 1024-bit p and 160-bit q (numbers of the right size; never used to verify)
func vfDSAPub() *dsa.PublicKey {
	p := new(big.Int).Lsh(big.NewInt(1), 1023)
	p.Or(p, big.NewInt(0x10001))
	q := new(big.Int).Lsh(big.NewInt(1), 159)
	q.Or(q, big.NewInt(0x1d))
	return &dsa.PublicKey{Parameters: dsa.Parameters{P: p, Q: q, G: big.NewInt(2)}, Y: big.NewInt(0x123456789)}
}

type vfDSAParams struct{ P, Q, G *big.Int }
type vfSPKI struct {
	Algo pkix.AlgorithmIdentifier
	Key  asn1.BitString
}

// PKIX DER of the key a spec describes ("rsa:2048:65537", "ec:256", "ed25519", "dsa", "x25519")
func vfPKIX(spec string) ([]byte, interface{}, bool) {
	f := strings.Split(spec, ":")
	var pub interface{}
	switch f[0] {
	case "rsa":
		if len(f) != 3 {
			return nil, nil, false
		}
		bits, e1 := strconv.Atoi(f[1])
		e, e2 := strconv.Atoi(f[2])
		if e1 != nil || e2 != nil || bits < 16 || bits > 16384 {
			return nil, nil, false
		}
		pub = vfRSAPub(bits, e)
	case "ec":
		if len(f) != 2 {
			return nil, nil, false
		}
		bits, err := strconv.Atoi(f[1])
		if err != nil {
			return nil, nil, false
		}
		pub = vfECPub(bits)
	case "ed25519":
		pub = vfEdPub()
	case "x25519":
		k, err := ecdh.X25519().GenerateKey(rand.Reader)
		if err != nil {
			return nil, nil, false
		}
		pub = k.PublicKey()
	case "dsa":
		d := vfDSAPub()
		params, _ := asn1.Marshal(vfDSAParams{d.P, d.Q, d.G})
		y, _ := asn1.Marshal(d.Y)
		der, err := asn1.Marshal(vfSPKI{
			Algo: pkix.AlgorithmIdentifier{Algorithm: asn1.ObjectIdentifier{1, 2, 840, 10040, 4, 1}, Parameters: asn1.RawValue{FullBytes: params}},
			Key:  asn1.BitString{Bytes: y, BitLength: 8 * len(y)}})
		return der, d, err == nil
	default:
		return nil, nil, false
	}
	der, err := x509.MarshalPKIXPublicKey(pub)
	return der, pub, err == nil
}

// authorized_keys line for a spec
func vfSSHLine(spec string) (string, bool) {
	f := strings.Split(spec, ":")
	var pub interface{}
	switch f[0] {
	case "rsa":
		bits, _ := strconv.Atoi(f[1])
		e, _ := strconv.Atoi(f[2])
		pub = vfRSAPub(bits, e)
	case "ec":
		bits, _ := strconv.Atoi(f[1])
		pub = vfECPub(bits)
	case "ed25519":
		pub = vfEdPub()
	case "dsa":
		pub = vfDSAPub()
	default:
		return "", false
	}
	k, err := ssh.NewPublicKey(pub)
	if err != nil {
		// x/crypto/ssh refuses to wrap some keys (P-224): hand-build the wire form for ECDSA
		if ec, ok := pub.(*ecdsa.PublicKey); ok {
			name := fmt.Sprintf("nistp%d", ec.Params().BitSize)
			pt := elliptic.Marshal(ec.Curve, ec.X, ec.Y)
			var b bytes.Buffer
			for _, s := range [][]byte{[]byte("ecdsa-sha2-" + name), []byte(name), pt} {
				b.Write([]byte{byte(len(s) >> 24), byte(len(s) >> 16), byte(len(s) >> 8), byte(len(s))})
				b.Write(s)
			}
			return "ecdsa-sha2-" + name + " " + base64.StdEncoding.EncodeToString(b.Bytes()) + " verif", true
		}
		return "", false
	}
	return strings.TrimRight(string(ssh.MarshalAuthorizedKey(k)), "\n") + " verif@host\n", true
}

// byte-level mutation "kind:a:b" of an encoding
func vfMutate(b []byte, mut string) []byte {
	if mut == "-" || len(b) == 0 {
		return b
	}
	f := strings.Split(mut, ":")
	a, c := 0, 0
	if len(f) > 1 {
		a, _ = strconv.Atoi(f[1])
	}
	if len(f) > 2 {
		c, _ = strconv.Atoi(f[2])
	}
	out := append([]byte{}, b...)
	pos := a % len(out)
	switch f[0] {
	case "trunc":
		n := a % len(out)
		return out[:len(out)-n-1]
	case "set":
		out[pos] = byte(c)
	case "xor":
		out[pos] ^= byte(c) | 1
	case "ins":
		out = append(out[:pos], append([]byte{byte(c)}, out[pos:]...)...)
	case "del":
		out = append(out[:pos], out[pos+1:]...)
	case "app":
		out = append(out, bytes.Repeat([]byte{byte(c)}, a%9+1)...)
	}
	return out
}

func vfDescribe(pub interface{}) string {
	switch k := pub.(type) {
	case *rsa.PublicKey:
		return fmt.Sprintf("rsa:%d:%d", k.N.BitLen(), k.E)
	case *ecdsa.PublicKey:
		return fmt.Sprintf("ec:%d", k.Curve.Params().BitSize)
	case ed25519.PublicKey:
		return "ed25519"
	case *ed25519.PublicKey:
		return "ed25519"
	default:
		return "other"
	}
}

// ----------------------------------------------------------------------------- environment

type vfFakeSTS struct{ arn string }

func (f vfFakeSTS) RoundTrip(req *http.Request) (*http.Response, error) {
	body := fmt.Sprintf(`<GetCallerIdentityResponse xmlns="https://sts.amazonaws.com/doc/2011-06-15/"><GetCallerIdentityResult><Arn>%s</Arn><UserId>AROAEXAMPLE:session</UserId><Account>123456789012</Account></GetCallerIdentityResult></GetCallerIdentityResponse>`, f.arn)
	return &http.Response{StatusCode: 200, Status: "200 OK", Proto: "HTTP/1.1", ProtoMajor: 1, ProtoMinor: 1,
		Header: http.Header{"Content-Type": []string{"text/xml"}}, Body: io.NopCloser(strings.NewReader(body)), Request: req}, nil
}

type vfC10Env struct {
	state    *RuntimeState
	ipChain  *tls.ConnectionState
	sshRE    *regexp.Regexp
	userCook *http.Cookie
	admCook  *http.Cookie
	roleCA    *x509.Certificate
	credLeafs map[string]*x509.Certificate
	kinds     *vfKinds // round 5: one genuine token of every kind the daemon mints (zz_verif_c10kinds_test.go)
}

func vfC10Setup(t *testing.T) (*vfC10Env, func()) {
	state, cleanup := vfNewState(t)
	state.Config.Base.AllowedAuthBackendsForCerts = []string{proto.AuthTypePassword, proto.AuthTypeIPCertificate}
	state.Config.Base.AllowedAuthBackendsForWebUI = []string{proto.AuthTypePassword}
	state.Config.Base.AutomationUsers = []string{"role1"}
	state.Config.Base.AutomationAdmins = []string{"admin1"}
	return vfC10EnvFromState(t, state), cleanup
}

// everything of the environment that is not configuration: an Ed25519 signer, the AWS issuer with a canned STS
// answer, an IP-restricted credential, session cookies
func vfC10EnvFromState(t *testing.T, state *RuntimeState) *vfC10Env {
	_, edPriv, err := ed25519.GenerateKey(rand.Reader)
	if err != nil {
		t.Fatal(err)
	}
	state.Ed25519Signer = edPriv
	// AWS issuer wired as in config.go, with a canned STS answer
	failureWriter := func(w http.ResponseWriter, r *http.Request, errorString string, code int) {
		state.writeFailureResponse(w, r, code, errorString)
	}
	state.Config.AwsCerts.allowedAccounts = map[string]struct{}{"*": {}}
	state.awsCertIssuer, err = aws_identity_cert.New(aws_identity_cert.Params{
		CertificateGenerator: state.generateRoleCert,
		AccountIdValidator:   state.checkAwsAccountAllowed,
		FailureWriter:        failureWriter,
		HttpClient:           &http.Client{Transport: vfFakeSTS{"arn:aws:sts::123456789012:assumed-role/TestRole/session"}},
		Logger:               state.logger,
	})
	if err != nil {
		t.Fatal(err)
	}
	// an IP-restricted credential for the refresh path
	userPub, err := getPubKeyFromPem(testUserPEMPublicKey)
	if err != nil {
		t.Fatal(err)
	}
	_, nb, _ := net.ParseCIDR("10.0.0.0/8")
	params := roleRequestingCertGenParams{Role: "role1", Duration: time.Hour, RequestorNetblocks: []net.IPNet{*nb}, UserPub: userPub}
	_, leaf, err := state.withParamsGenerateRoleRequestingCert(&params)
	if err != nil {
		t.Fatal(err)
	}
	caCert, err := x509.ParseCertificate(state.selfRoleCaCertDer)
	if err != nil {
		t.Fatal(err)
	}
	env := &vfC10Env{state: state,
		ipChain:  &tls.ConnectionState{VerifiedChains: [][]*x509.Certificate{{leaf, caCert}}, PeerCertificates: []*x509.Certificate{leaf}},
		userCook: vfAuthCookie(t, state, "username", AuthTypePassword),
		admCook:  vfAuthCookie(t, state, "admin1", AuthTypePassword),
		roleCA:   caCert, credLeafs: map[string]*x509.Certificate{}}
	return env
}

// an IP-restricted credential for role1 / 10.0.0.0/8 whose OWN key is the one `spec` describes (as a certificate
// from another trusted client CA, or one issued before key strength was enforced, could be)
func (env *vfC10Env) credentialWithKey(spec string) (*tls.ConnectionState, bool) {
	leaf := env.credLeafs[spec]
	if leaf == nil {
		_, pub, ok := vfPKIX(spec)
		if !ok {
			return nil, false
		}
		_, nb, _ := net.ParseCIDR("10.0.0.0/8")
		der, err := certgen.GenIPRestrictedX509Cert("role1", pub, env.roleCA, env.state.Signer, []net.IPNet{*nb}, time.Hour, nil, nil)
		if err != nil {
			return nil, false
		}
		if leaf, err = x509.ParseCertificate(der); err != nil {
			return nil, false
		}
		env.credLeafs[spec] = leaf
	}
	return &tls.ConnectionState{VerifiedChains: [][]*x509.Certificate{{leaf, env.roleCA}}, PeerCertificates: []*x509.Certificate{leaf}}, true
}

func vfSameX509Key(certPEM []byte, submitted interface{}) string {
	block, _ := pem.Decode(certPEM)
	if block == nil || block.Type != "CERTIFICATE" {
		return "nocert"
	}
	cert, err := x509.ParseCertificate(block.Bytes)
	if err != nil {
		return "badcert"
	}
	a, e1 := x509.MarshalPKIXPublicKey(cert.PublicKey)
	b, e2 := x509.MarshalPKIXPublicKey(submitted)
	if e1 == nil && e2 == nil && bytes.Equal(a, b) {
		return "1"
	}
	return "0"
}

// "multi:<variant>:<spec with _ for :>" — a second key in the same upload; returns variant, second spec
func vfMulti(mut string) (string, string, bool) {
	if !strings.HasPrefix(mut, "multi:") {
		return "", "", false
	}
	f := strings.SplitN(mut, ":", 3)
	if len(f) != 3 {
		return "", "", false
	}
	return f[1], strings.ReplaceAll(f[2], "_", ":"), true
}

// one key on one issuing path; returns "desc=… [re=…] status=… samekey=…"
func (env *vfC10Env) submit(path, spec, mut string) string {
	state := env.state
	var req *http.Request
	var handler http.HandlerFunc
	desc := "unparsable"
	var parsed interface{}
	extra := ""
	if mut == "nokey" {
		return env.submitNoKey(path, spec)
	}
	switch path {
	case "ssh":
		line, ok := vfSSHLine(spec)
		if !ok {
			return "bad-op"
		}
		// mutate the base64 blob (decoded), keep the label; "label:<hex>" / "line:<hex>" rewrite text
		parts := strings.SplitN(line, " ", 3)
		if strings.HasPrefix(mut, "label:") {
			if l, ok := vfUnhex(mut[6:]); ok {
				parts[0] = l
			}
		} else if strings.HasPrefix(mut, "line:") {
			if l, ok := vfUnhex(mut[5:]); ok {
				parts = []string{l}
			}
		} else if variant, spec2, ok := vfMulti(mut); ok {
			// an upload with two keys: the key the parser yields first is the one a signer would certify
			line2, ok2 := vfSSHLine(spec2)
			if !ok2 {
				return "bad-op"
			}
			l1, l2 := strings.TrimRight(line, "\n"), strings.TrimRight(line2, "\n")
			switch variant {
			case "ab":
				parts = []string{l1 + "\n" + l2 + "\n"}
			case "optab": // authorized_keys options in front of the first key
				parts = []string{"no-pty " + l1 + "\n" + l2 + "\n"}
			case "restrictab":
				parts = []string{"restrict,command=\"/bin/true\" " + l1 + "\n" + l2}
			case "cab": // comment and blank lines first
				parts = []string{"# my keys\n\n" + l1 + "\n" + l2 + "\n"}
			case "crlf":
				parts = []string{l1 + "\r\n" + l2 + "\r\n"}
			case "tabab":
				parts = []string{"\t" + l1 + "\n" + l2}
			default:
				return "bad-op"
			}
		} else if mut != "-" {
			blob, _ := base64.StdEncoding.DecodeString(parts[1])
			parts[1] = base64.StdEncoding.EncodeToString(vfMutate(blob, mut))
		}
		line = strings.Join(parts, " ")
		if k, _, _, _, err := ssh.ParseAuthorizedKey([]byte(line)); err == nil {
			if ck, ok := k.(ssh.CryptoPublicKey); ok {
				parsed = ck.CryptoPublicKey()
				desc = vfDescribe(parsed)
				if _, isDSA := parsed.(*dsa.PublicKey); isDSA {
					desc = "other"
				}
			}
		}
		extra = " re=" + vfBool(env.sshRE != nil && env.sshRE.MatchString(line))
		req, _ = createKeyBodyRequest("POST", "/certgen/username?type=ssh", line, "")
		req.AddCookie(env.userCook)
		handler = state.certGenHandler
	case "x509", "x509k8s", "aws":
		der, _, ok := vfPKIX(spec)
		if !ok {
			return "bad-op"
		}
		ptype := "PUBLIC KEY"
		if strings.HasPrefix(mut, "pem:") {
			if l, ok := vfUnhex(mut[4:]); ok {
				ptype = l
			}
		} else {
			der = vfMutate(der, mut)
		}
		variant, spec2, isMulti := vfMulti(mut)
		if isMulti {
			der, _, _ = vfPKIX(spec)
		}
		pemKey := string(pem.EncodeToMemory(&pem.Block{Type: ptype, Bytes: der}))
		if isMulti {
			der2, _, ok2 := vfPKIX(spec2)
			if !ok2 {
				return "bad-op"
			}
			pem2 := string(pem.EncodeToMemory(&pem.Block{Type: "PUBLIC KEY", Bytes: der2}))
			switch variant {
			case "ab", "optab", "restrictab", "tabab":
				pemKey = pemKey + pem2
			case "cab":
				pemKey = "my keys\n\n" + pemKey + "\n" + pem2
			case "crlf":
				pemKey = strings.ReplaceAll(pemKey+pem2, "\n", "\r\n")
			default:
				return "bad-op"
			}
		}
		if mut == "nopem" {
			pemKey = base64.StdEncoding.EncodeToString(der)
		}
		if block, _ := pem.Decode([]byte(pemKey)); block != nil && block.Type == "PUBLIC KEY" {
			if k, err := x509.ParsePKIXPublicKey(block.Bytes); err == nil {
				parsed = k
				desc = vfDescribe(k)
			}
		}
		if path == "aws" {
			req = httptest.NewRequest("POST", "/aws/requestRoleCertificate/v1", strings.NewReader(pemKey))
			req.Header.Set("claimed-arn", "arn:aws:iam::123456789012:role/TestRole")
			req.Header.Set("presigned-method", "GET")
			req.Header.Set("presigned-url", "https://sts.us-east-1.amazonaws.com/?Action=GetCallerIdentity&Version=2011-06-15&X-Amz-Signature=00")
			handler = state.requestAwsRoleCertificateHandler
		} else {
			typ := "x509"
			if path == "x509k8s" {
				typ = "x509-kubernetes"
			}
			req, _ = createKeyBodyRequest("POST", "/certgen/username?type="+typ, pemKey, "")
			req.AddCookie(env.userCook)
			handler = state.certGenHandler
		}
	case "role", "refresh":
		der, _, ok := vfPKIX(spec)
		if !ok {
			return "bad-op"
		}
		der = vfMutate(der, mut)
		b64 := base64.RawURLEncoding.EncodeToString(der)
		if mut == "stdb64" {
			b64 = base64.StdEncoding.EncodeToString(der) + "=="
		}
		if raw, err := base64.RawURLEncoding.DecodeString(b64); err == nil && b64 != "" {
			if k, err := x509.ParsePKIXPublicKey(raw); err == nil {
				parsed = k
				desc = vfDescribe(k)
			}
		}
		form := url.Values{}
		form.Add("pubkey", b64)
		if _, spec2, isMulti := vfMulti(mut); isMulti { // a second pubkey value in the same form
			der2, _, ok2 := vfPKIX(spec2)
			if !ok2 {
				return "bad-op"
			}
			form.Add("pubkey", base64.RawURLEncoding.EncodeToString(der2))
		}
		if path == "role" {
			form.Add("identity", "role1")
			form.Add("requestor_netblock", "10.0.0.0/8")
			form.Add("target_netblock", "192.168.0.174/32")
			req, _ = http.NewRequest("POST", getRoleRequestingPath, strings.NewReader(form.Encode()))
			req.AddCookie(env.admCook)
			handler = state.roleRequetingCertGenHandler
		} else {
			req, _ = http.NewRequest("POST", refreshRoleRequestingCertPath, strings.NewReader(form.Encode()))
			req.RemoteAddr = "10.1.2.3:4444"
			req.TLS = env.ipChain
			handler = state.refreshRoleRequestingCertGenHandler
		}
		req.Header.Add("Content-Length", strconv.Itoa(len(form.Encode())))
		req.Header.Add("Content-Type", "application/x-www-form-urlencoded")
	default:
		return "bad-op"
	}
	rr, p := vfServe(handler, req)
	if p != nil {
		return fmt.Sprintf("desc=%s%s status=PANIC samekey=-", desc, extra)
	}
	same := "-"
	certkey := "-" // what the returned certificate actually certifies
	if rr.Code == 200 {
		certkey = "unreadable"
		if path == "ssh" {
			same = "0"
			if ck, _, _, _, err := ssh.ParseAuthorizedKey(rr.Body.Bytes()); err == nil {
				if cert, ok := ck.(*ssh.Certificate); ok {
					if cck, ok := cert.Key.(ssh.CryptoPublicKey); ok {
						certkey = vfDescribe(cck.CryptoPublicKey())
					}
					if parsed != nil {
						if sk, err := ssh.NewPublicKey(parsed); err == nil && bytes.Equal(cert.Key.Marshal(), sk.Marshal()) {
							same = "1"
						}
					}
				}
			}
		} else {
			if block, _ := pem.Decode(rr.Body.Bytes()); block != nil && block.Type == "CERTIFICATE" {
				if cert, err := x509.ParseCertificate(block.Bytes); err == nil {
					certkey = vfDescribe(cert.PublicKey)
				}
			}
			if parsed != nil {
				same = vfSameX509Key(rr.Body.Bytes(), parsed)
			} else {
				same = "0"
			}
		}
	}
	return fmt.Sprintf("desc=%s%s status=%d samekey=%s certkey=%s", desc, extra, rr.Code, same, certkey)
}

// describeIssued: status and the key the returned certificate carries
func vfDescribeIssued(path string, rr *httptest.ResponseRecorder) string {
	certkey := "-"
	if rr.Code == 200 {
		certkey = "unreadable"
		if path == "ssh" {
			if ck, _, _, _, err := ssh.ParseAuthorizedKey(rr.Body.Bytes()); err == nil {
				if cert, ok := ck.(*ssh.Certificate); ok {
					if cck, ok := cert.Key.(ssh.CryptoPublicKey); ok {
						certkey = vfDescribe(cck.CryptoPublicKey())
					}
				}
			}
		} else if block, _ := pem.Decode(rr.Body.Bytes()); block != nil && block.Type == "CERTIFICATE" {
			if cert, err := x509.ParseCertificate(block.Bytes); err == nil {
				certkey = vfDescribe(cert.PublicKey)
			}
		}
	}
	return fmt.Sprintf("status=%d samekey=- certkey=%s", rr.Code, certkey)
}

// a request on an issuing path that carries NO key at all (no file part, no form value, empty body). Whatever a
// path then falls back to — the credential's own key, a directory, a command — is judged like any other key.
// On the refresh path the presented credential itself carries the key `spec` describes.
func (env *vfC10Env) submitNoKey(path, spec string) string {
	state := env.state
	var req *http.Request
	var handler http.HandlerFunc
	switch path {
	case "ssh", "x509", "x509k8s":
		typ := map[string]string{"ssh": "ssh", "x509": "x509", "x509k8s": "x509-kubernetes"}[path]
		body := &bytes.Buffer{}
		mw := multipart.NewWriter(body)
		mw.WriteField("duration", "1h")
		mw.Close()
		req, _ = http.NewRequest("POST", "/certgen/username?type="+typ, body)
		req.Header.Set("Content-Type", mw.FormDataContentType())
		req.AddCookie(env.userCook)
		handler = state.certGenHandler
	case "aws":
		req = httptest.NewRequest("POST", "/aws/requestRoleCertificate/v1", strings.NewReader(""))
		req.Header.Set("claimed-arn", "arn:aws:iam::123456789012:role/TestRole")
		req.Header.Set("presigned-method", "GET")
		req.Header.Set("presigned-url", "https://sts.us-east-1.amazonaws.com/?Action=GetCallerIdentity&Version=2011-06-15&X-Amz-Signature=00")
		handler = state.requestAwsRoleCertificateHandler
	case "role", "refresh":
		form := url.Values{}
		if path == "role" {
			form.Add("identity", "role1")
			form.Add("requestor_netblock", "10.0.0.0/8")
			form.Add("target_netblock", "192.168.0.174/32")
			req, _ = http.NewRequest("POST", getRoleRequestingPath, strings.NewReader(form.Encode()))
			req.AddCookie(env.admCook)
			handler = state.roleRequetingCertGenHandler
		} else {
			cs, ok := env.credentialWithKey(spec)
			if !ok {
				return "bad-op"
			}
			req, _ = http.NewRequest("POST", refreshRoleRequestingCertPath, strings.NewReader(form.Encode()))
			req.RemoteAddr = "10.1.2.3:4444"
			req.TLS = cs
			handler = state.refreshRoleRequestingCertGenHandler
		}
		req.Header.Add("Content-Length", strconv.Itoa(len(form.Encode())))
		req.Header.Add("Content-Type", "application/x-www-form-urlencoded")
	default:
		return "bad-op"
	}
	rr, p := vfServe(handler, req)
	if p != nil {
		return "desc=absent re=0 status=PANIC samekey=- certkey=-"
	}
	return "desc=absent re=0 " + vfDescribeIssued(path, rr)
}

// a token aimed at one of the three token parsers reachable from a route
func (env *vfC10Env) token(target, mode, arg string) string {
	state := env.state
	tok := arg
	if mode == "signed" {
		sigAlgo, err := publicToPreferedJoseSigAlgo(state.Signer.Public())
		if err != nil {
			return "bad-op"
		}
		signer, err := jose.NewSigner(jose.SigningKey{Algorithm: sigAlgo, Key: state.Signer}, (&jose.SignerOptions{}).WithType("JWT"))
		if err != nil {
			return "bad-op"
		}
		obj, err := signer.Sign([]byte(arg))
		if err != nil {
			return "bad-op"
		}
		tok, err = obj.CompactSerialize()
		if err != nil {
			return "bad-op"
		}
	}
	var req *http.Request
	var handler http.HandlerFunc
	switch target {
	case "cookie":
		req, _ = createKeyBodyRequest("POST", "/certgen/username?type=x509", testUserPEMPublicKey, "")
		req.Header.Set("Cookie", authCookieName+"="+tok)
		handler = state.certGenHandler
	case "code":
		form := url.Values{}
		form.Add("grant_type", "authorization_code")
		form.Add("redirect_uri", "https://client.example.com/cb")
		form.Add("code", tok)
		form.Add("client_id", "verifclient")
		form.Add("code_verifier", "0123456789012345678901234567890123456789012")
		req = httptest.NewRequest("POST", idpOpenIDCTokenPath, strings.NewReader(form.Encode()))
		req.Header.Set("Content-Type", "application/x-www-form-urlencoded")
		handler = state.idpOpenIDCTokenHandler
	case "access":
		req = httptest.NewRequest("GET", idpOpenIDCUserinfoPath, nil)
		req.Header.Set("Authorization", "Bearer "+tok)
		handler = state.idpOpenIDCUserinfoHandler
	default:
		return "bad-op"
	}
	rr, p := vfServe(handler, req)
	if p != nil {
		return fmt.Sprintf("status=PANIC panic=%s", vfHex(fmt.Sprint(p)))
	}
	return fmt.Sprintf("status=%d", rr.Code)
}

// extAll presents a certificate for role1, signed by the role-requesting CA and carrying `value` under the
// address-delegation OID (nil: a well-formed 10.0.0.0/8 control), from `addr` to EVERY route main()
// registers (table regenerated by the extractor), with GET and with POST (form with a strong pubkey).
// Returns "n=<requests> panics=<k> [first=<path>|<method>|<hex panic>] routes=<;-joined panicking routes>".
func (env *vfC10Env) extAll(value []byte, addr string, caCert *x509.Certificate, userPub interface{}, b64public string) string {
	state := env.state
	tmpl := x509.Certificate{
		SerialNumber: big.NewInt(time.Now().UnixNano()),
		Subject:      pkix.Name{CommonName: "role1"},
		NotBefore:    time.Now().Add(-time.Minute),
		NotAfter:     time.Now().Add(time.Hour),
		KeyUsage:     x509.KeyUsageDigitalSignature,
		ExtKeyUsage:  []x509.ExtKeyUsage{x509.ExtKeyUsageClientAuth},
	}
	if value == nil {
		value = []byte{0x30, 0x0d, 0x30, 0x0b, 0x04, 0x03, 0x00, 0x01, 0x01, 0x30, 0x04, 0x03, 0x02, 0x00, 0x0a}
	}
	tmpl.ExtraExtensions = []pkix.Extension{{Id: asn1.ObjectIdentifier{1, 3, 6, 1, 5, 5, 7, 1, 7}, Value: value}}
	der, err := x509.CreateCertificate(rand.Reader, &tmpl, caCert, userPub, state.Signer)
	if err != nil {
		return "cert-error " + err.Error()
	}
	leaf, err := x509.ParseCertificate(der)
	if err != nil {
		return "cert-error " + err.Error()
	}
	cs := &tls.ConnectionState{VerifiedChains: [][]*x509.Certificate{{leaf, caCert}}, PeerCertificates: []*x509.Certificate{leaf}}
	n, panics := 0, 0
	first := ""
	var routes []string
	for _, rt := range vfRouteTable(state) {
		path := rt.path
		if strings.HasSuffix(path, "/") {
			path += "role1"
		}
		for _, method := range []string{"GET", "POST"} {
			var req *http.Request
			if method == "POST" {
				form := url.Values{}
				form.Add("pubkey", b64public)
				req = httptest.NewRequest("POST", path, strings.NewReader(form.Encode()))
				req.Header.Set("Content-Type", "application/x-www-form-urlencoded")
			} else {
				req = httptest.NewRequest("GET", path, nil)
			}
			req.RemoteAddr = addr
			req.TLS = cs
			n++
			if _, p := vfServe(rt.h, req); p != nil {
				panics++
				routes = append(routes, rt.path+"|"+method)
				if first == "" {
					first = rt.path + "|" + method + "|" + vfHex(fmt.Sprint(p))
				}
			}
		}
	}
	out := fmt.Sprintf("n=%d panics=%d", n, panics)
	if panics > 0 {
		out += " first=" + first + " routes=" + strings.Join(routes, ";")
	}
	return out
}

// TestVerifC10 — ops:
//
//	sshre <hex regex literal>                 regex of getValidSSHPublicKey as the extractor read it
//	key <path> <spec> <mutation|->            path ∈ ssh x509 x509k8s role refresh aws
//	    -> desc=<what the standard parser makes of the submitted bytes> [re=0|1] status=<code|PANIC> samekey=<1|0|->
//	tok <cookie|code|access> <raw|signed> <hex>   -> status=<code|PANIC>
//	extall <hexDER|control> <hexaddr>         certificate with that address extension to every registered route
//	tokslot <kind|control> <variant> <slot>   a genuine token of that kind (or a one-claim variant of it) in that
//	    credential slot (cookie | bearer | form) of every registered route -> n=… panics=… st=<status:count,…>
func TestVerifC10(t *testing.T) {
	io := vfOpen(t)
	defer io.close()
	env, cleanup := vfC10Setup(t)
	defer cleanup()
	env.state.Config.OpenIDConnectIDP.Client = []OpenIDConnectClientConfig{{
		ClientID: "verifclient", AllowClientChosenAudiences: false, AllowedRedirectDomains: []string{"example.com"}}}
	extCA, err := x509.ParseCertificate(env.state.selfRoleCaCertDer)
	if err != nil {
		t.Fatal(err)
	}
	extPub, err := getPubKeyFromPem(testUserPEMPublicKey)
	if err != nil {
		t.Fatal(err)
	}
	extBlock, _ := pem.Decode([]byte(testUserPEMPublicKey))
	extB64 := base64.RawURLEncoding.EncodeToString(extBlock.Bytes)
	for _, line := range io.ops {
		f := strings.Fields(line)
		switch {
		case len(f) == 2 && f[0] == "sshre":
			s, ok := vfUnhex(f[1])
			re, err := regexp.Compile(s)
			if !ok || err != nil {
				io.emit("bad-op")
				continue
			}
			env.sshRE = re
			io.emit("ok")
		case len(f) == 2 && f[0] == "usecfg":
			// from here on: a state read from a configuration file by the real loader, new options (hex JSON) switched on
			js, ok := vfUnhex(f[1])
			if !ok {
				io.emit("bad-op")
				continue
			}
			st, rep, err := vfLoadWithNewOptions(t, js)
			if err != nil {
				io.emit("load-error %s", strings.Join(strings.Fields(err.Error()), "_"))
				continue
			}
			re := env.sshRE
			env = vfC10EnvFromState(t, st)
			env.sshRE = re
			io.emit("cfg %s", rep)
		case len(f) == 4 && f[0] == "key":
			io.emit("%s", env.submit(f[1], f[2], f[3]))
		case len(f) == 3 && f[0] == "extall":
			addr, ok := vfUnhex(f[2])
			var value []byte
			if f[1] != "control" {
				v, ok2 := vfUnhex(f[1])
				ok = ok && ok2
				value = []byte(v)
			}
			if !ok {
				io.emit("bad-op")
				continue
			}
			io.emit("%s", env.extAll(value, addr, extCA, extPub, extB64))
		case len(f) == 4 && f[0] == "tokslot":
			io.emit("%s", env.tokSlotOp(f[1], f[2], f[3], extB64))
		case len(f) == 4 && f[0] == "tok":
			arg, ok := vfUnhex(f[3])
			if !ok {
				io.emit("bad-op")
				continue
			}
			io.emit("%s", env.token(f[1], f[2], arg))
		default:
			io.emit("bad-op")
		}
	}
}
