package main

import (
	"crypto/x509"
	"encoding/base64"
	"encoding/json"
	"fmt"
	"io/ioutil"
	"net/http"
	"net/http/httptest"
	neturl "net/url"
	"strconv"
	"strings"
	"sync"
	"testing"
	"time"

	"github.com/Cloud-Foundations/golib/pkg/log/testlogger"
	"github.com/Cloud-Foundations/keymaster/lib/webapi/v0/proto"
	"github.com/pquerna/otp/totp"
	"github.com/tstranex/u2f"
	"golang.org/x/time/rate"
)

func vfC16Fixture(t *testing.T, state *RuntimeState, fx string) {
	p := &userProfile{}
	p.U2fAuthData = map[int64]*u2fAuthData{}
	p.TOTPAuthData = map[int64]*totpAuthData{}
	p.WebauthnData = map[int64]*webauthAuthData{}
	if fx == "otp" {
		p.BootstrapOTP = bootstrapOTPData{ExpiresAt: time.Now().Add(time.Hour), Sha512Hash: testBootstrapOtpHash[:]}
	} else {
		for _, i := range []int64{1, 2} {
			p.U2fAuthData[i] = &u2fAuthData{Enabled: true, Name: "n0", Registration: nil}
		}
		p.TOTPAuthData[1] = &totpAuthData{Enabled: true, Name: "n0", EncryptedSecret: [][]byte{[]byte("x")}}
	}
	if err := state.SaveUserProfile("alice", p); err != nil {
		t.Fatal(err)
	}
}

func vfC16Digest(t *testing.T, state *RuntimeState) string {
	p, _, _, err := state.LoadUserProfile("alice")
	if err != nil {
		return "load-error"
	}
	nm := func(s string) string {
		if strings.HasPrefix(s, "n") {
			return s[1:]
		}
		return "?" + s
	}
	u := func(i int64) string {
		if x, ok := p.U2fAuthData[i]; ok {
			return vfBool(x.Enabled) + "/" + nm(x.Name)
		}
		return "-"
	}
	tt := func(i int64) string {
		if x, ok := p.TOTPAuthData[i]; ok {
			return vfBool(x.Enabled) + "/" + nm(x.Name)
		}
		return "-"
	}
	otp := len(p.BootstrapOTP.Sha512Hash) > 0 && time.Until(p.BootstrapOTP.ExpiresAt) > 0
	return fmt.Sprintf("u2f=%s,%s,%s totp=%s,%s otp=%s", u(1), u(2), u(3), tt(1), tt(2), vfBool(otp))
}

// vfC16Request builds the request of one task kind; every task has its own session cookie.
func vfC16Request(t *testing.T, state *RuntimeState, kind string) (http.HandlerFunc, *http.Request, bool) {
	f := strings.Split(kind, ":")
	form := neturl.Values{}
	form.Set("username", "alice")
	var h http.HandlerFunc
	var path string
	switch {
	case (f[0] == "u2f" || f[0] == "totp") && len(f) == 3:
		form.Set("index", f[1])
		switch {
		case f[2] == "disable":
			form.Set("action", "Disable")
		case f[2] == "enable":
			form.Set("action", "Enable")
		case f[2] == "delete":
			form.Set("action", "Delete")
		case strings.HasPrefix(f[2], "rename"):
			if _, err := strconv.Atoi(f[2][6:]); err != nil {
				return nil, nil, false
			}
			form.Set("action", "Update")
			form.Set("name", "n"+f[2][6:])
		default:
			return nil, nil, false
		}
		if f[0] == "u2f" {
			h, path = state.u2fTokenManagerHandler, u2fTokenManagementPath
		} else {
			h, path = state.totpTokenManagerHandler, totpTokenManagementPath
		}
	case f[0] == "otp" && len(f) == 2:
		if f[1] == "ok" {
			form.Set("OTP", testBootstrapOTP)
		} else if f[1] == "bad" {
			form.Set("OTP", "wrong")
		} else {
			return nil, nil, false
		}
		h, path = state.BootstrapOtpAuthHandler, bootstrapOtpAuthPath
	default:
		return nil, nil, false
	}
	req := vfFormPost(path, form)
	req.Header.Set("Accept", "application/json")
	req.AddCookie(vfAuthCookie(t, state, "alice", AuthTypePassword))
	return h, req, true
}

// TestVerifC16: `pair <fixture> <kindA> <kindB> <schedule>` ↦ `<statusA> <statusB> <final profile digest> trace=<realised trace>`
func TestVerifC16(t *testing.T) {
	vio := vfOpen(t)
	defer vio.close()
	state, cleanup := vfNewState(t)
	defer cleanup()
	state.Config.Base.AllowedAuthBackendsForWebUI = []string{proto.AuthTypePassword}
	vfHookDB(t, state)
	for _, line := range vio.ops {
		f := strings.Fields(line)
		if len(f) == 2 && f[0] == "totp2" {
			// totp2 <n>: the same valid one-time code submitted by n requests at the same moment
			n, _ := strconv.Atoi(f[1])
			vio.emit("%s", vfC16ConcurrentTOTP(t, state, n))
			continue
		}
		if len(f) == 2 && f[0] == "unseal2" {
			// unseal2 <n>: n correct unseal requests at the same moment on a sealed server
			n, _ := strconv.Atoi(f[1])
			vio.emit("%s", vfC16ConcurrentUnseal(t, state, n))
			continue
		}
		if len(f) == 4 && f[0] == "hw2" {
			// hw2 <u2f|wa> <n> <same|slowsave>: one signed hardware-token assertion presented by n sessions
			n, _ := strconv.Atoi(f[2])
			vio.emit("%s", vfC16ConcurrentHW(t, state, f[1], n, f[3]))
			continue
		}
		if len(f) == 4 && f[0] == "fine" && f[1] == "totp" {
			// fine totp <auth|verify,…> <schedule>: the same valid one-time code presented by 2 or 3 requests,
			// every interleaving step forced: load, the part between the load's return and the save, save
			vio.emit("%s", vfC16FineTOTP(t, state, strings.Split(f[2], ","), f[3]))
			continue
		}
		if len(f) == 6 && f[0] == "triple" {
			vfC16Fixture(t, state, f[1])
			var hs [3]http.HandlerFunc
			var rs [3]*http.Request
			okAll := true
			for i := 0; i < 3; i++ {
				h, r, ok := vfC16Request(t, state, f[2+i])
				hs[i], rs[i], okAll = h, r, okAll && ok
			}
			if !okAll {
				vio.emit("bad-op")
				continue
			}
			var sched []string
			for _, c := range f[5] {
				sched = append(sched, string(c))
			}
			var cmu sync.Mutex
			codes := map[string]int{}
			tasks := map[string]*vfTask{}
			for i, name := range []string{"A", "B", "C"} {
				i, name := i, name
				tasks[name] = &vfTask{name: name, run: func() {
					rr, p := vfServe(hs[i], rs[i])
					cmu.Lock()
					if p != nil {
						codes[name] = -1
					} else {
						codes[name] = rr.Code
					}
					cmu.Unlock()
				}}
			}
			trace := vfRunSchedule(t, tasks, sched)
			vio.emit("%d %d %d %s trace=%s", codes["A"], codes["B"], codes["C"], vfC16Digest(t, state), strings.Join(trace, ","))
			continue
		}
		if len(f) != 5 || f[0] != "pair" {
			vio.emit("bad-op")
			continue
		}
		vfC16Fixture(t, state, f[1])
		hA, rA, okA := vfC16Request(t, state, f[2])
		hB, rB, okB := vfC16Request(t, state, f[3])
		if !okA || !okB {
			vio.emit("bad-op")
			continue
		}
		var sched []string
		for _, c := range f[4] {
			sched = append(sched, string(c))
		}
		codes := map[string]int{}
		mk := func(name string, h http.HandlerFunc, r *http.Request) *vfTask {
			return &vfTask{name: name, run: func() {
				rr, p := vfServe(h, r)
				if p != nil {
					codes[name] = -1
				} else {
					codes[name] = rr.Code
				}
			}}
		}
		tasks := map[string]*vfTask{"A": mk("A", hA, rA), "B": mk("B", hB, rB)}
		trace := vfRunSchedule(t, tasks, sched)
		vio.emit("%d %d %s trace=%s", codes["A"], codes["B"], vfC16Digest(t, state), strings.Join(trace, ","))
	}
}

// TestVerifC16Stress (thorough tier, run under -race as supporting search): truly concurrent
// requests on the handlers that touch the mutex-guarded maps and the signer.
func TestVerifC16Stress(t *testing.T) {
	vio := vfOpen(t)
	defer vio.close()
	state, cleanup := vfNewState(t)
	defer cleanup()
	state.Config.Base.AllowedAuthBackendsForWebUI = []string{proto.AuthTypePassword}
	state.Config.Base.AllowedAuthBackendsForCerts = []string{proto.AuthTypePassword}
	go state.performStateCleanup(1)
	// users with a real (software token) U2F registration, so that sign-request stores a challenge
	// and the finish handlers get as far as looking it up
	for i := 0; i < 4; i++ {
		reg := vfNewToken(t, fmt.Sprintf("stress%d", i)).registration(t)
		p := &userProfile{U2fAuthData: map[int64]*u2fAuthData{1: {Enabled: true, Name: "n0", Registration: reg}},
			TOTPAuthData: map[int64]*totpAuthData{}, WebauthnData: map[int64]*webauthAuthData{}}
		if err := state.SaveUserProfile(fmt.Sprintf("user%d", i), p); err != nil {
			t.Fatal(err)
		}
	}
	done := make(chan struct{})
	n := 0
	inflight := map[int]int{}
	var inflightMu sync.Mutex
	for _, line := range vio.ops {
		var k int
		if _, err := fmt.Sscanf(line, "stress %d", &k); err != nil {
			vio.emit("bad-op")
			continue
		}
		for i := 0; i < k; i++ {
			user := fmt.Sprintf("user%d", i%4)
			for _, job := range []func(){
				func() {
					req := vfFormPost(u2fSignRequestPath, neturl.Values{})
					req.AddCookie(vfAuthCookie(t, state, user, AuthTypePassword))
					vfServe(state.u2fSignRequest, req)
				},
				func() {
					req := vfFormPost(u2fSignResponsePath, neturl.Values{})
					req.Body = ioutil.NopCloser(strings.NewReader("{}"))
					req.AddCookie(vfAuthCookie(t, state, user, AuthTypePassword))
					vfServe(state.u2fSignResponse, req)
				},
				func() {
					req := vfFormPost(webAuthnAuthBeginPath, neturl.Values{})
					req.AddCookie(vfAuthCookie(t, state, user, AuthTypePassword))
					vfServe(state.webauthnAuthLogin, req)
				},
				func() {
					req := vfFormPost(webAuthnAuthFinishPath, neturl.Values{})
					req.AddCookie(vfAuthCookie(t, state, user, AuthTypePassword))
					vfServe(state.webauthnAuthFinish, req)
				},
				func() { vfServe(state.readyzHandler, vfFormPost(readyzPath, neturl.Values{})) },
				func() { state.isUnsealed() },
				func() {
					form := neturl.Values{}
					form.Set("OTP", "123456")
					req := vfFormPost(totpAuthPath, form)
					req.AddCookie(vfAuthCookie(t, state, user, AuthTypePassword))
					vfServe(state.TOTPAuthHandler, req)
				},
			} {
				n++
				j := job
				go func() { defer func() { recover(); done <- struct{}{} }(); j() }()
			}
		}
		for ; n > 0; n-- {
			<-done
		}
		if line == vio.ops[0] {
			// let the periodic clean-up (period 1 s, first pass at t=0) run a pass AFTER requests have populated the
			// maps, and a batch after that pass
			// requests must be IN FLIGHT when that pass runs (every handler starts by taking state.Mutex, which
			// orders anything that begins after a pass behind it): keep four users submitting codes for 1.3 s
			var wg sync.WaitGroup
			deadline := time.Now().Add(1300 * time.Millisecond)
			for i := 0; i < 4; i++ {
				user := fmt.Sprintf("user%d", i)
				wg.Add(1)
				go func() {
					defer wg.Done()
					defer func() { recover() }()
					for time.Now().Before(deadline) {
						// forget the user's limiter entry (under ITS mutex, as validateUserTOTP does), so that the
						// request below passes the 2 s gate and writes the map again instead of only reading it
						state.totpLocalTateLimitMutex.Lock()
						delete(state.totpLocalRateLimit, user)
						state.totpLocalTateLimitMutex.Unlock()
						form := neturl.Values{}
						form.Set("OTP", "123456")
						req := vfFormPost(totpAuthPath, form)
						req.AddCookie(vfAuthCookie(t, state, user, AuthTypePassword))
						rr, _ := vfServe(state.TOTPAuthHandler, req)
						if rr != nil {
							inflightMu.Lock()
							inflight[rr.Code]++
							inflightMu.Unlock()
						}
					}
				}()
			}
			wg.Wait()
			state.totpLocalTateLimitMutex.Lock()
			inflight[-2] = len(state.totpLocalRateLimit)
			state.totpLocalTateLimitMutex.Unlock()
		}
		vio.emit("done %v", inflight)
	}
}

// vfC16ConcurrentTOTP: fresh user with a real TOTP secret; n goroutines present the current code
// through the real TOTPAuthHandler at once (storage scheduler off). `<accepted> <n>`.
var vfC16TotpSeq int

func vfC16ConcurrentTOTP(t *testing.T, state *RuntimeState, n int) string {
	vfC16TotpSeq++
	user := fmt.Sprintf("totpuser%d", vfC16TotpSeq)
	key, err := totp.Generate(totp.GenerateOpts{Issuer: "vf", AccountName: user})
	if err != nil {
		t.Fatal(err)
	}
	enc, err := state.encryptWithPublicKeys([]byte(key.Secret()))
	if err != nil {
		t.Fatal(err)
	}
	p := &userProfile{U2fAuthData: map[int64]*u2fAuthData{}, WebauthnData: map[int64]*webauthAuthData{},
		TOTPAuthData: map[int64]*totpAuthData{1: {Enabled: true, Name: "t", EncryptedSecret: enc}}}
	if err := state.SaveUserProfile(user, p); err != nil {
		t.Fatal(err)
	}
	code, err := totp.GenerateCode(key.Secret(), time.Now())
	if err != nil {
		t.Fatal(err)
	}
	var wg sync.WaitGroup
	var mu sync.Mutex
	accepted := 0
	start := make(chan struct{})
	for i := 0; i < n; i++ {
		wg.Add(1)
		form := neturl.Values{}
		form.Set("OTP", code)
		req := vfFormPost(totpAuthPath, form)
		req.Header.Set("Accept", "application/json")
		req.AddCookie(vfAuthCookie(t, state, user, AuthTypePassword))
		go func() {
			defer wg.Done()
			<-start
			rr, pn := vfServe(state.TOTPAuthHandler, req)
			if pn == nil && rr.Code == 200 {
				mu.Lock()
				accepted++
				mu.Unlock()
			}
		}()
	}
	close(start)
	wg.Wait()
	return fmt.Sprintf("%d %d", accepted, n)
}

// vfC16ConcurrentHW: fresh user with a (software) U2F token registered; one login challenge is
// requested, the token signs it once, and n sessions of that user present that one assertion —
// mode `same`: all at the same moment; mode `slowsave`: 40 ms apart while every profile save takes
// 250 ms (a remote database). `<honoured> <n> <other statuses>`.
var vfC16HWSeq int

func vfC16ConcurrentHW(t *testing.T, state *RuntimeState, proto_ string, n int, mode string) string {
	if state.webAuthn == nil {
		vfConfigureWebAuthn(t, state)
	}
	// as loadVerifyConfigFile does: one application id, which is the WebAuthn origin and the only trusted facet
	u2fAppID = state.webAuthn.Config.RPOrigin
	u2fTrustedFacets = []string{u2fAppID}
	vfC16HWSeq++
	user := fmt.Sprintf("hwuser%d", vfC16HWSeq)
	tk := c05NewToken(user)
	p := &userProfile{U2fAuthData: map[int64]*u2fAuthData{1: {Enabled: true, Name: "t", Registration: tk.u2fRegistration()}},
		WebauthnData: map[int64]*webauthAuthData{}, TOTPAuthData: map[int64]*totpAuthData{}}
	if err := state.SaveUserProfile(user, p); err != nil {
		t.Fatal(err)
	}
	begin, beginPath, finish, finishPath := state.u2fSignRequest, u2fSignRequestPath, state.u2fSignResponse, u2fSignResponsePath
	if proto_ == "wa" {
		begin, beginPath, finish, finishPath = state.webauthnAuthLogin, webAuthnAuthBeginPath, state.webauthnAuthFinish, webAuthnAuthFinishPath
	} else if proto_ != "u2f" {
		return "bad-op"
	}
	breq := vfFormPost(beginPath, neturl.Values{})
	breq.AddCookie(vfAuthCookie(t, state, user, AuthTypePassword))
	rr, pn := vfServe(begin, breq)
	if pn != nil || rr.Code != 200 {
		return fmt.Sprintf("begin-failed-%d", rr.Code)
	}
	var ch string
	if proto_ == "u2f" {
		var sr u2f.WebSignRequest
		json.Unmarshal(rr.Body.Bytes(), &sr)
		ch = sr.Challenge
	} else {
		var ca struct {
			PublicKey struct {
				Challenge string `json:"challenge"`
			} `json:"publicKey"`
		}
		json.Unmarshal(rr.Body.Bytes(), &ca)
		ch = ca.PublicKey.Challenge
	}
	raw, err := base64.RawURLEncoding.DecodeString(strings.TrimRight(ch, "="))
	if err != nil {
		raw, err = base64.StdEncoding.DecodeString(ch)
	}
	if err != nil || len(raw) == 0 {
		return "bad-challenge"
	}
	var body []byte
	if proto_ == "u2f" {
		body = tk.u2fAssertion(raw)
	} else {
		body = tk.waAssertion(raw, state.webAuthn.Config.RPID, true)
	}
	stagger := time.Duration(0)
	if mode == "slowsave" {
		vfSched.mu.Lock()
		vfSlowSave = 250 * time.Millisecond
		vfSched.mu.Unlock()
		defer func() { vfSched.mu.Lock(); vfSlowSave = 0; vfSched.mu.Unlock() }()
		stagger = 40 * time.Millisecond
	} else if mode == "seq" {
		stagger = 40 * time.Millisecond
	} else if mode != "same" {
		return "bad-op"
	}
	var wg sync.WaitGroup
	var mu sync.Mutex
	honoured := 0
	other := map[int]int{}
	start := make(chan struct{})
	for i := 0; i < n; i++ {
		i := i
		wg.Add(1)
		req := vfFormPost(finishPath, neturl.Values{})
		req.Body = ioutil.NopCloser(strings.NewReader(string(body)))
		req.Header.Set("Content-Type", "application/json")
		req.AddCookie(vfAuthCookie(t, state, user, AuthTypePassword))
		go func() {
			defer wg.Done()
			<-start
			time.Sleep(time.Duration(i) * stagger)
			rr, pn := vfServe(finish, req)
			mu.Lock()
			if pn == nil && rr.Code == 200 && vfC16RaisedToU2F(state, rr) {
				honoured++
			} else if pn != nil {
				other[-1]++
			} else {
				other[rr.Code]++
			}
			mu.Unlock()
		}()
	}
	close(start)
	wg.Wait()
	time.Sleep(10 * time.Millisecond)
	return fmt.Sprintf("%d %d %v", honoured, n, other)
}

// vfC16RaisedToU2F: did the response hand out a session cookie that carries the hardware-token level?
func vfC16RaisedToU2F(state *RuntimeState, rr *httptest.ResponseRecorder) bool {
	for _, ck := range rr.Result().Cookies() {
		if ck.Name != authCookieName {
			continue
		}
		info, err := state.getAuthInfoFromAuthJWT(ck.Value)
		if err == nil && info.AuthType&AuthTypeU2F != 0 {
			return true
		}
	}
	return false
}

// vfC16ConcurrentUnseal: a freshly sealed server (both CA files encrypted) receives n correct
// passphrase injections at once. `<#200> <seal digest>`; served one after another exactly one is
// acknowledged, two CA certificates exist and readiness is signalled once.
var vfC16Shapes *vfShapes

func vfC16ConcurrentUnseal(t *testing.T, state *RuntimeState, n int) string {
	if vfC16Shapes == nil {
		vfC16Shapes = vfNewShapes(t, state)
	}
	chain := []*x509.Certificate{vfC16Shapes.certs["km"], vfC16Shapes.kmCA}
	st := &RuntimeState{logger: testlogger.New(t), passwordAttemptGlobalLimiter: rate.NewLimiter(1e9, 1000)}
	st.SSHCARawFileContent = []byte(encryptedTestSignerPrivateKey)
	st.Ed25519CAFileContent = []byte(encryptedTestEd25519PrivateKey)
	st.SignerIsReady = make(chan bool, 64)
	var wg sync.WaitGroup
	var mu sync.Mutex
	oks := 0
	start := make(chan struct{})
	for i := 0; i < n; i++ {
		wg.Add(1)
		req, _ := vfInjectReq("pass:70617373776f7264", chain)
		go func() {
			defer wg.Done()
			<-start
			rr, p := vfServe(st.secretInjectorHandler, req)
			if p == nil && rr.Code == 200 {
				mu.Lock()
				oks++
				mu.Unlock()
			}
		}()
	}
	close(start)
	wg.Wait()
	return fmt.Sprintf("%d %s", oks, vfSealDigest(0, st))
}

// vfC16FineTOTP: fresh user with a real TOTP secret; requests A, B (, C) present the current code through
// TOTPAuthHandler (`auth`) or verifyTOTPHandler (`verify`). The n-th occurrence of a letter in the schedule
// releases that request's n-th parking point: before the profile load statement, after the load has
// returned (so the spacing test-and-set and the evaluation of the code run when THIS step is scheduled), and
// before the profile save. `<ok|refused|panic> … stored=<new|old>`; `ok` = the request was told the code is
// valid (auth: 200 or a session cookie carrying the TOTP level; verify: the redirect to the profile page).
// The spacing is a wall-clock window (2 s): a round that took longer than 1.2 s says nothing about "the
// same moment" and is repeated (3 times, then `slow`).
var vfC16FineSeq int

func vfC16FineTOTP(t *testing.T, state *RuntimeState, kinds []string, schedule string) string {
	if len(kinds) < 2 || len(kinds) > 3 {
		return "bad-op"
	}
	for _, k := range kinds {
		if k != "auth" && k != "verify" {
			return "bad-op"
		}
	}
	for _, c := range schedule {
		if c < 'A' || int(c-'A') >= len(kinds) {
			return "bad-op"
		}
	}
	for attempt := 0; attempt < 3; attempt++ {
		vfC16FineSeq++
		user := fmt.Sprintf("fineuser%d", vfC16FineSeq)
		key, err := totp.Generate(totp.GenerateOpts{Issuer: "vf", AccountName: user})
		if err != nil {
			t.Fatal(err)
		}
		enc, err := state.encryptWithPublicKeys([]byte(key.Secret()))
		if err != nil {
			t.Fatal(err)
		}
		p := &userProfile{U2fAuthData: map[int64]*u2fAuthData{}, WebauthnData: map[int64]*webauthAuthData{},
			TOTPAuthData: map[int64]*totpAuthData{1: {Enabled: true, Name: "t", EncryptedSecret: enc}}}
		if err := state.SaveUserProfile(user, p); err != nil {
			t.Fatal(err)
		}
		code, err := totp.GenerateCode(key.Secret(), time.Now())
		if err != nil {
			t.Fatal(err)
		}
		var mu sync.Mutex
		res := map[string]string{}
		tasks := map[string]*vfTask{}
		for i, kind := range kinds {
			name, kind := string(rune('A'+i)), kind
			form := neturl.Values{}
			form.Set("OTP", code)
			h, path := state.TOTPAuthHandler, totpAuthPath
			if kind == "verify" {
				h, path = state.verifyTOTPHandler, totpVerifyHandlerPath
			}
			req := vfFormPost(path, form)
			req.Header.Set("Accept", "application/json")
			req.AddCookie(vfAuthCookie(t, state, user, AuthTypePassword))
			tasks[name] = &vfTask{name: name, run: func() {
				rr, pn := vfServe(h, req)
				out := "refused"
				if pn != nil {
					out = "panic"
				} else if kind == "auth" && (rr.Code == 200 || vfC16RaisedTo(state, rr, AuthTypeTOTP)) {
					out = "ok"
				} else if kind == "verify" && rr.Code == 302 && rr.Header().Get("Location") == profilePath {
					out = "ok"
				}
				mu.Lock()
				res[name] = out
				mu.Unlock()
			}}
		}
		var sched []string
		for _, c := range schedule {
			sched = append(sched, string(c))
		}
		vfSched.mu.Lock()
		vfPostLoad = true
		vfSched.mu.Unlock()
		begin := time.Now()
		vfRunSchedule(t, tasks, sched)
		took := time.Since(begin)
		vfSched.mu.Lock()
		vfPostLoad = false
		vfSched.mu.Unlock()
		if took > 1200*time.Millisecond {
			continue
		}
		stored := "old"
		if q, _, _, err := state.LoadUserProfile(user); err != nil {
			stored = "load-error"
		} else if q.LastSuccessfullTOTPCounter > 0 {
			stored = "new"
		}
		var outs []string
		for i := range kinds {
			o, ok := res[string(rune('A'+i))]
			if !ok {
				o = "unfinished"
			}
			outs = append(outs, o)
		}
		return strings.Join(outs, " ") + " stored=" + stored
	}
	return "slow"
}

// vfC16RaisedTo: did the response hand out a session cookie that carries the given level?
func vfC16RaisedTo(state *RuntimeState, rr *httptest.ResponseRecorder, level int) bool {
	for _, ck := range rr.Result().Cookies() {
		if ck.Name != authCookieName {
			continue
		}
		info, err := state.getAuthInfoFromAuthJWT(ck.Value)
		if err == nil && info.AuthType&level != 0 {
			return true
		}
	}
	return false
}
