package main

// Verification harness for C07 (injected with `go test -overlay`; never committed to /repo).
// The REAL LDAP PasswordAuthenticator in front of the REAL RuntimeState storage
// (UpsertSigned / GetSigned / DeleteSigned with signed JWS, primary + cache sqlite databases,
// copyDBIntoSQLite) behind the REAL loginHandler, against in-process LDAPS servers (vfldapsrv).
// Same op language and output lines as harness/pwauthldap (see lean/KM/Driver/C07.lean).
//
// Virtual time: `adv h` moves every stored record h hours into the past (signed nbf/iat/exp
// re-signed with the key that had signed the record — keymaster's own signer or the attacker's —
// and the unsigned columns), which is what advancing the clock does to every comparison the code
// makes. Primary outage: `slow` = remoteDBQueryTimeout 0 (reads served by the cache, writes
// arrive), `down` = additionally a closed database handle (writes fail).

import (
	"crypto/ecdsa"
	"crypto/elliptic"
	"crypto/rand"
	"database/sql"
	"encoding/base64"
	"encoding/json"
	"fmt"
	"io/ioutil"
	"math"
	"net/http"
	"net/http/httptest"
	"net/url"
	"path/filepath"
	"runtime"
	"strconv"
	"strings"
	"sync"
	"testing"
	"time"

	"github.com/Cloud-Foundations/keymaster/lib/authutil"
	"github.com/Cloud-Foundations/keymaster/lib/pwauth"
	"github.com/Cloud-Foundations/keymaster/lib/pwauth/htpassword"
	"github.com/Cloud-Foundations/keymaster/lib/pwauth/ldap"
	"github.com/Cloud-Foundations/keymaster/lib/vfldapsrv"
	"github.com/go-jose/go-jose/v4"
	"github.com/go-jose/go-jose/v4/jwt"
	"golang.org/x/crypto/bcrypt"
)

var vf07Names = []string{"alice", "bob", "carol"}

const vf07PwType = 1 // lib/pwauth/ldap passwordDataType (the generated facts pin it)

func vf07Password(id int) string {
	if id == 0 {
		return ""
	}
	return fmt.Sprintf("pw-%d-correct horse", id)
}

// vf07Variant spells the name as the client types it: l/L/1 lower, u/U/2 upper, m/M/3 capitalised.
func vf07Variant(name, v string) string {
	switch strings.ToLower(v) {
	case "u", "2":
		return strings.ToUpper(name)
	case "m", "3":
		return strings.ToUpper(name[:1]) + name[1:]
	}
	return name
}

// vf07Route: l u m = form fields at loginHandler, L U M = basic auth at loginHandler,
// 1 2 3 = basic auth without cookie through checkAuth (what certgen and the API handlers use).
func vf07Route(v string) string {
	switch {
	case strings.Contains("lum", v):
		return "form"
	case strings.Contains("LUM", v):
		return "basic"
	}
	return "checkauth"
}

type vf07Row struct {
	jws       string
	columnExp int64
	update    int64
}

type vf07World struct {
	t          *testing.T
	state      *RuntimeState
	cluster    *vfldapsrv.Cluster
	realDB     *sql.DB
	closedDB   *sql.DB
	foreignKey *ecdsa.PrivateKey
	vault      map[int]*vf07Row
	pwOf       map[string]int
	hint       int
	htChecker  pwauth.PasswordAuthenticator
}

func vf07NewWorld(t *testing.T) (*vf07World, func(), error) {
	state, cleanup := vfNewState(t)
	// stop the background primary -> cache copier: synchronisation happens only on `sync` ops
	select {
	case state.dbDone <- struct{}{}:
	case <-time.After(2 * time.Second):
	}
	cluster, err := vfldapsrv.Start(2)
	if err != nil {
		return nil, cleanup, err
	}
	authn, err := ldap.New(cluster.URLs(), []string{vfldapsrv.BindPattern}, vfldapsrv.ClientTimeoutSecs, cluster.RootCAs, state, state.logger)
	if err != nil {
		return nil, cleanup, err
	}
	state.passwordChecker = authn
	state.Config.Ldap.LDAPTargetURLs = strings.Join(cluster.URLs(), ",")
	closed, err := sql.Open("sqlite3", filepath.Join(state.Config.Base.DataDirectory, "vf07-closed.sqlite3"))
	if err != nil {
		return nil, cleanup, err
	}
	closed.Close()
	fk, err := ecdsa.GenerateKey(elliptic.P256(), rand.Reader)
	if err != nil {
		return nil, cleanup, err
	}
	w := &vf07World{t: t, state: state, cluster: cluster, realDB: state.db, closedDB: closed, foreignKey: fk,
		vault: map[int]*vf07Row{}, pwOf: map[string]int{}}
	// htpasswd backend for the `ht` ops: alice, a legacy mixed-case entry Alice with another password, bob
	var lines []string
	for _, e := range []struct {
		name string
		pw   int
	}{{"alice", 1}, {"Alice", 2}, {"bob", 2}} {
		h, err := bcrypt.GenerateFromPassword([]byte(vf07Password(e.pw)), bcrypt.MinCost)
		if err != nil {
			return nil, cleanup, err
		}
		lines = append(lines, e.name+":$2y$"+string(h[4:]))
	}
	htFile := filepath.Join(state.Config.Base.DataDirectory, "vf07-htpasswd")
	if err := ioutil.WriteFile(htFile, []byte(strings.Join(lines, "\n")+"\n"), 0600); err != nil {
		return nil, cleanup, err
	}
	w.htChecker, err = htpassword.New(htFile, state.logger)
	if err != nil {
		return nil, cleanup, err
	}
	return w, cleanup, nil
}

func (w *vf07World) db(which string) *sql.DB {
	if which == "p" {
		return w.realDB
	}
	if which == "c" {
		return w.state.cacheDB
	}
	return nil
}

// setPats configures the bind patterns: a new LDAP authenticator over the same storage.
func (w *vf07World) setPats(kinds []string) (bool, error) {
	pats, ok := vfldapsrv.Patterns(kinds)
	if !ok {
		return false, nil
	}
	authn, err := ldap.New(w.cluster.URLs(), pats, vfldapsrv.ClientTimeoutSecs, w.cluster.RootCAs, w.state, w.state.logger)
	if err != nil {
		return true, err
	}
	w.state.passwordChecker = authn
	return true, nil
}

func (w *vf07World) reset() error {
	if _, err := w.setPats([]string{"e"}); err != nil {
		return err
	}
	w.cluster.Reset()
	w.cluster.SetPassword("alice", vf07Password(1), true)
	w.cluster.SetPassword("bob", vf07Password(2), true)
	w.state.db = w.realDB
	w.state.remoteDBQueryTimeout = vfPrimaryAnswersInTime
	w.vault = map[int]*vf07Row{}
	for _, db := range []*sql.DB{w.realDB, w.state.cacheDB} {
		for _, q := range []string{"DELETE FROM expiring_signed_user_data", "DELETE FROM user_profile"} {
			if _, err := db.Exec(q); err != nil {
				return err
			}
		}
	}
	return nil
}

func (w *vf07World) getRow(db *sql.DB, name string) (*vf07Row, error) {
	var r vf07Row
	err := db.QueryRow("SELECT jws_data, expiration_epoch, update_epoch FROM expiring_signed_user_data WHERE username = ? AND type = ?",
		name, vf07PwType).Scan(&r.jws, &r.columnExp, &r.update)
	if err == sql.ErrNoRows {
		return nil, nil
	}
	if err != nil {
		return nil, err
	}
	return &r, nil
}

func (w *vf07World) putRow(db *sql.DB, name string, r *vf07Row) error {
	_, err := db.Exec("INSERT OR REPLACE INTO expiring_signed_user_data(username, type, jws_data, expiration_epoch, update_epoch) VALUES(?,?,?,?,?)",
		name, vf07PwType, r.jws, r.columnExp, r.update)
	return err
}

// vf07Claims decodes the payload of a compact JWS WITHOUT verifying it.
func vf07Claims(jws string) (storageStringDataJWT, bool) {
	var c storageStringDataJWT
	parts := strings.Split(jws, ".")
	if len(parts) != 3 {
		return c, false
	}
	raw, err := base64.RawURLEncoding.DecodeString(parts[1])
	if err != nil {
		return c, false
	}
	if json.Unmarshal(raw, &c) != nil {
		return c, false
	}
	return c, true
}

func (w *vf07World) verifies(jws string) bool {
	_, err := w.state.getStorageDataFromStorageStringDataJWT(jws)
	return err == nil
}

// sign serialises the claims with keymaster's own signer (own = true) or with the attacker's key.
func (w *vf07World) sign(c storageStringDataJWT, own bool) (string, error) {
	opts := (&jose.SignerOptions{}).WithType("JWT")
	var key jose.SigningKey
	if own {
		alg, err := publicToPreferedJoseSigAlgo(w.state.Signer.Public())
		if err != nil {
			return "", err
		}
		key = jose.SigningKey{Algorithm: alg, Key: w.state.Signer}
	} else {
		key = jose.SigningKey{Algorithm: jose.ES256, Key: w.foreignKey}
	}
	signer, err := jose.NewSigner(key, opts)
	if err != nil {
		return "", err
	}
	return jwt.Signed(signer).Claims(c).Serialize()
}

// shift moves one stored record dt seconds into the past.
func (w *vf07World) shift(r *vf07Row, dt int64) error {
	c, ok := vf07Claims(r.jws)
	if ok {
		own := w.verifies(r.jws)
		c.NotBefore -= dt
		c.IssuedAt -= dt
		c.Expiration -= dt
		jws, err := w.sign(c, own)
		if err != nil {
			return err
		}
		r.jws = jws
	}
	r.columnExp -= dt
	r.update -= dt
	return nil
}

func (w *vf07World) advance(dt int64) error {
	for _, db := range []*sql.DB{w.realDB, w.state.cacheDB} {
		rows, err := db.Query("SELECT username, type, jws_data, expiration_epoch, update_epoch FROM expiring_signed_user_data")
		if err != nil {
			return err
		}
		type full struct {
			name string
			typ  int
			r    vf07Row
		}
		var all []full
		for rows.Next() {
			var f full
			if err := rows.Scan(&f.name, &f.typ, &f.r.jws, &f.r.columnExp, &f.r.update); err != nil {
				rows.Close()
				return err
			}
			all = append(all, f)
		}
		rows.Close()
		for _, f := range all {
			if err := w.shift(&f.r, dt); err != nil {
				return err
			}
			if _, err := db.Exec("UPDATE expiring_signed_user_data SET jws_data = ?, expiration_epoch = ?, update_epoch = ? WHERE username = ? AND type = ?",
				f.r.jws, f.r.columnExp, f.r.update, f.name, f.typ); err != nil {
				return err
			}
		}
	}
	for _, r := range w.vault {
		if err := w.shift(r, dt); err != nil {
			return err
		}
	}
	return nil
}

func (w *vf07World) pwID(hash string) int {
	if id, ok := w.pwOf[hash]; ok {
		return id
	}
	id := 9
	order := []int{w.hint}
	for k := 0; k <= 5; k++ {
		if k != w.hint {
			order = append(order, k)
		}
	}
	if strings.HasPrefix(hash, "$argon2d$") && strings.Contains(hash, ":") {
		for _, k := range order {
			if authutil.Argon2CompareHashAndPassword(hash, []byte(vf07Password(k))) == nil {
				id = k
				break
			}
		}
	}
	w.pwOf[hash] = id
	return id
}

func vf07RelH(now, x int64) int64 { return int64(math.Floor(float64(x-now)/3600.0 + 0.5)) }

func (w *vf07World) rowStr(db *sql.DB, name string) string {
	r, err := w.getRow(db, name)
	if err != nil {
		return "sqlerr"
	}
	if r == nil {
		return "-"
	}
	c, ok := vf07Claims(r.jws)
	if !ok {
		return "garbage"
	}
	subj := 9
	for i, n := range vf07Names {
		if n == c.Subject {
			subj = i
		}
	}
	now := time.Now().Unix()
	return fmt.Sprintf("s%d:p%d:t%d:v%s:e%d:c%d", subj, w.pwID(c.Data), c.DataType, vfBool(w.verifies(r.jws)),
		vf07RelH(now, c.Expiration), vf07RelH(now, r.columnExp))
}

func (w *vf07World) rows() string {
	return fmt.Sprintf("%s %s %s %s", w.rowStr(w.realDB, "alice"), w.rowStr(w.state.cacheDB, "alice"),
		w.rowStr(w.realDB, "bob"), w.rowStr(w.state.cacheDB, "bob"))
}

// login sends the credentials over the given route and reports A (accepted AND the identity granted
// is the normalised user), W (accepted for another identity), R (401), E<code>, P (panic).
func (w *vf07World) login(name, pass, route string) string {
	want := strings.ToLower(name)
	if route == "checkauth" {
		req := httptest.NewRequest("GET", "/vf07-protected", nil)
		req.SetBasicAuth(name, pass)
		var got *authInfo
		rr, p := vfServe(func(rw http.ResponseWriter, r *http.Request) {
			if ai, err := w.state.checkAuth(rw, r, AuthTypePassword); err == nil {
				got = ai
				rw.WriteHeader(http.StatusNoContent)
			}
		}, req)
		switch {
		case p != nil:
			return "P"
		case rr.Code == http.StatusNoContent && got != nil:
			if got.Username != want {
				return "W"
			}
			return "A"
		case rr.Code == 401:
			return "R"
		}
		return "E" + strconv.Itoa(rr.Code)
	}
	var req = httptest.NewRequest("POST", "/api/v0/login", nil)
	if route == "basic" {
		req.SetBasicAuth(name, pass)
	} else {
		form := url.Values{}
		form.Set("username", name)
		form.Set("password", pass)
		req = httptest.NewRequest("POST", "/api/v0/login", strings.NewReader(form.Encode()))
		req.Header.Set("Content-Type", "application/x-www-form-urlencoded")
	}
	req.Header.Set("Accept", "application/json")
	rr, p := vfServe(w.state.loginHandler, req)
	if p != nil {
		return "P"
	}
	switch rr.Code {
	case 200:
		for _, c := range rr.Result().Cookies() {
			if c.Name == authCookieName && c.Value != "" {
				info, err := w.state.getAuthInfoFromAuthJWT(c.Value)
				if err != nil {
					return "E200"
				}
				if info.Username != want {
					return "W"
				}
				return "A"
			}
		}
		return "E200"
	case 401:
		return "R"
	}
	return "E" + strconv.Itoa(rr.Code)
}

func vf07Worker(t *testing.T, lines []string) (out []string) {
	out = make([]string, len(lines))
	for i := range out {
		out[i] = "not-run"
	}
	w, cleanup, err := vf07NewWorld(t)
	defer cleanup()
	if err != nil {
		t.Error(err)
		return
	}
	started := false
	atoi := func(s string) (int, bool) { n, err := strconv.Atoi(s); return n, err == nil }
	for li, line := range lines {
		f := strings.Fields(line)
		if len(f) == 0 || (f[0] != "seq" && !started) {
			out[li] = "bad-op"
			continue
		}
		bad := false
		var opErr error
		res, trace := "-", "-"
		switch {
		case f[0] == "seq" && len(f) == 2:
			opErr = w.reset()
			started = true
		case f[0] == "pats":
			var ok bool
			ok, opErr = w.setPats(f[1:])
			bad = !ok
		case f[0] == "login" && len(f) == 4:
			u, ok1 := atoi(f[1])
			pw, ok2 := atoi(f[2])
			if !ok1 || !ok2 || u < 0 || u > 2 || pw < 0 || pw > 5 || !strings.Contains("lumLUM123", f[3]) || len(f[3]) != 1 {
				bad = true
				break
			}
			w.cluster.TakeTrace()
			w.hint = pw
			res = w.login(vf07Variant(vf07Names[u], f[3]), vf07Password(pw), vf07Route(f[3]))
			trace = w.cluster.TakeTrace()
		case f[0] == "ht" && len(f) == 4:
			// the same request with the htpasswd backend configured
			u, ok1 := atoi(f[1])
			pw, ok2 := atoi(f[2])
			if !ok1 || !ok2 || u < 0 || u > 2 || pw < 0 || pw > 5 || !strings.Contains("lumLUM123", f[3]) || len(f[3]) != 1 {
				bad = true
				break
			}
			ldapChecker := w.state.passwordChecker
			w.state.passwordChecker = w.htChecker
			res = w.login(vf07Variant(vf07Names[u], f[3]), vf07Password(pw), vf07Route(f[3]))
			w.state.passwordChecker = ldapChecker
		case f[0] == "srv" && len(f) == 3:
			i, ok := atoi(f[1])
			bad = !ok || !w.cluster.SetStatus(i, f[2])
		case f[0] == "chpw" && len(f) == 3:
			u, ok := atoi(f[1])
			if !ok || u < 0 || u > 2 {
				bad = true
				break
			}
			if f[2] == "-" {
				w.cluster.SetPassword(vf07Names[u], "", false)
			} else if pw, ok := atoi(f[2]); ok && pw >= 0 && pw <= 5 {
				w.cluster.SetPassword(vf07Names[u], vf07Password(pw), true)
			} else {
				bad = true
			}
		case f[0] == "acct" && len(f) == 3:
			u, ok := atoi(f[1])
			if !ok || u < 0 || u > 2 || !strings.Contains(" ok 530 531 532 533 701 773 775 ", " "+f[2]+" ") {
				bad = true
				break
			}
			w.cluster.SetAccount(vf07Names[u], f[2])
		case f[0] == "diag" && len(f) == 2:
			bad = !w.cluster.SetDiag(f[1])
		case f[0] == "anon" && len(f) == 2 && (f[1] == "0" || f[1] == "1"):
			w.cluster.SetAnon(f[1] == "1")
		case f[0] == "adv" && len(f) == 2:
			h, ok := atoi(f[1])
			if !ok || h < 0 {
				bad = true
				break
			}
			opErr = w.advance(int64(h) * 3600)
		case f[0] == "prim" && len(f) == 2:
			switch f[1] {
			case "up":
				w.state.db = w.realDB
				w.state.remoteDBQueryTimeout = vfPrimaryAnswersInTime
			case "slow":
				w.state.db = w.realDB
				w.state.remoteDBQueryTimeout = 0
			case "down":
				w.state.db = w.closedDB
				w.state.remoteDBQueryTimeout = 0
			default:
				bad = true
			}
		case f[0] == "sync" && len(f) == 1:
			// what BackgroundDBCopy does each interval; an unreachable primary makes it fail
			_ = copyDBIntoSQLite(w.state.db, w.state.cacheDB, "sqlite")
		case f[0] == "tamper" && len(f) >= 4:
			db := w.db(f[1])
			u, ok := atoi(f[2])
			if db == nil || !ok || u < 0 || u > 1 {
				bad = true
				break
			}
			name := vf07Names[u]
			arg := func(i int) (int, bool) {
				if len(f) <= i {
					return 0, false
				}
				return atoi(f[i])
			}
			now := time.Now().Unix()
			switch f[3] {
			case "del":
				_, opErr = db.Exec("DELETE FROM expiring_signed_user_data WHERE username = ? AND type = ?", name, vf07PwType)
			case "colexp":
				h, ok := arg(4)
				if !ok {
					bad = true
					break
				}
				_, opErr = db.Exec("UPDATE expiring_signed_user_data SET expiration_epoch = ? WHERE username = ? AND type = ?",
					now+int64(h)*3600, name, vf07PwType)
			case "foreign", "other":
				pw, ok1 := arg(4)
				h, ok2 := arg(5)
				if !ok1 || !ok2 || pw < 0 || pw > 5 {
					bad = true
					break
				}
				hash, err := authutil.Argon2MakeNewHash([]byte(vf07Password(pw)))
				if err != nil {
					opErr = err
					break
				}
				w.pwOf[hash] = pw
				exp := now + int64(h)*3600
				var jws string
				if f[3] == "other" {
					// keymaster itself signs a record of another data type; its row's type column is then edited
					jws, opErr = w.state.genNewSerializedStorageStringDataJWT(name, vf07PwType+1, hash, exp)
				} else {
					issuer := w.state.idpGetIssuer()
					jws, opErr = w.sign(storageStringDataJWT{Issuer: issuer, Subject: name, Audience: []string{issuer},
						DataType: vf07PwType, TokenType: "storage_data", Data: hash, NotBefore: now, IssuedAt: now, Expiration: exp}, false)
				}
				if opErr == nil {
					opErr = w.putRow(db, name, &vf07Row{jws: jws, columnExp: exp, update: now})
				}
			case "save":
				slot, ok := arg(4)
				if !ok {
					bad = true
					break
				}
				var r *vf07Row
				r, opErr = w.getRow(db, name)
				if r != nil {
					w.vault[slot] = r
				} else {
					delete(w.vault, slot)
				}
			case "restore":
				slot, ok := arg(4)
				if !ok {
					bad = true
					break
				}
				if r := w.vault[slot]; r != nil {
					c := *r
					opErr = w.putRow(db, name, &c)
				}
			default:
				bad = true
			}
		default:
			bad = true
		}
		if bad {
			out[li] = "bad-op"
			continue
		}
		if opErr != nil {
			out[li] = "harness-error " + strings.Join(strings.Fields(opErr.Error()), "_")
			continue
		}
		out[li] = fmt.Sprintf("%s %s %s", res, trace, w.rows())
	}
	return out
}

func vf07Split(lines []string, n int) [][2]int {
	var starts []int
	for i, l := range lines {
		if i == 0 || strings.HasPrefix(l, "seq ") {
			starts = append(starts, i)
		}
	}
	if n > len(starts) {
		n = len(starts)
	}
	var parts [][2]int
	for k := 0; k < n; k++ {
		a := starts[k*len(starts)/n]
		b := len(lines)
		if k+1 < n {
			b = starts[(k+1)*len(starts)/n]
		}
		parts = append(parts, [2]int{a, b})
	}
	return parts
}

// TestVerifC07: sequences are independent; each worker has its own RuntimeState, databases and
// LDAP servers.
func TestVerifC07(t *testing.T) {
	vio := vfOpen(t)
	defer vio.close()
	workers := runtime.NumCPU() / 2
	if workers < 1 {
		workers = 1
	}
	if workers > 8 {
		workers = 8
	}
	parts := vf07Split(vio.ops, workers)
	outs := make([][]string, len(parts))
	var wg sync.WaitGroup
	for k, p := range parts {
		wg.Add(1)
		go func(k, a, b int) {
			defer wg.Done()
			defer func() {
				if r := recover(); r != nil {
					t.Errorf("worker %d panicked: %v", k, r)
				}
			}()
			outs[k] = vf07Worker(t, vio.ops[a:b])
		}(k, p[0], p[1])
	}
	wg.Wait()
	for k, p := range parts {
		for i := 0; i < p[1]-p[0]; i++ {
			if outs[k] == nil || i >= len(outs[k]) {
				vio.emit("not-run")
			} else {
				vio.emit("%s", outs[k][i])
			}
		}
	}
}
