package main

// States built the way the daemon builds them: a configuration FILE on disk, generated once by the
// repo's own -generateConfig code, edited as an operator would (YAML keys), read by the real
// loadVerifyConfigFile and unsealed with the real unsealCA. Everything between "what the operator
// wrote" and "what the handlers see" is therefore inside the run: parsing, defaults, clamps,
// normalisations, key and CA loading.

import (
	"bufio"
	"fmt"
	"io/ioutil"
	"os"
	"path/filepath"
	"sort"
	"strings"
	"sync"
	"testing"

	"github.com/Cloud-Foundations/golib/pkg/log/testlogger"
	"gopkg.in/yaml.v2"
)

type vfCfgLoader struct {
	t    *testing.T
	dir  string
	file string
	base map[interface{}]interface{}
	mu   sync.Mutex
	memo map[string]*RuntimeState
}

const vfCfgPassphrase = "passphrase"

var vfCfgOnce struct {
	sync.Mutex
	l *vfCfgLoader
}

// vfConfigLoader returns the process-wide loader (the generated files are reused by every state).
func vfConfigLoader(t *testing.T) (*vfCfgLoader, error) {
	vfCfgOnce.Lock()
	defer vfCfgOnce.Unlock()
	if vfCfgOnce.l != nil {
		vfCfgOnce.l.t = t
		return vfCfgOnce.l, nil
	}
	dir, err := ioutil.TempDir("", "vfcfg")
	if err != nil {
		return nil, err
	}
	l := &vfCfgLoader{t: t, dir: dir, file: filepath.Join(dir, "config.yml"), memo: map[string]*RuntimeState{}}
	reader := bufio.NewReader(strings.NewReader(dir + "\n\n\n\n\n\n\n\n\n\n\n\n\n\n\n\n"))
	if err := generateNewConfigInternal(reader, l.file, 2048, []byte(vfCfgPassphrase)); err != nil {
		return nil, err
	}
	if err := os.MkdirAll(filepath.Join(dir, "var/lib/keymaster"), 0750); err != nil {
		return nil, err
	}
	text, err := ioutil.ReadFile(l.file)
	if err != nil {
		return nil, err
	}
	if err := yaml.Unmarshal(text, &l.base); err != nil {
		return nil, err
	}
	vfCfgOnce.l = l
	return l, nil
}

func vfCfgCopy(v interface{}) interface{} {
	switch x := v.(type) {
	case map[interface{}]interface{}:
		m := map[interface{}]interface{}{}
		for k, e := range x {
			m[k] = vfCfgCopy(e)
		}
		return m
	case []interface{}:
		s := make([]interface{}, len(x))
		for i, e := range x {
			s[i] = vfCfgCopy(e)
		}
		return s
	}
	return v
}

// load writes the generated configuration with the given settings ("section.key" -> value; a nil
// value removes the key) and loads it. unseal: inject the passphrase through the real unsealCA.
// States are memoised by their settings (they are read-only for the callers' purposes).
func (l *vfCfgLoader) load(settings map[string]interface{}, unseal bool) (*RuntimeState, error) {
	var keys []string
	for k := range settings {
		keys = append(keys, k)
	}
	sort.Strings(keys)
	memoKey := fmt.Sprintf("%v|", unseal)
	for _, k := range keys {
		memoKey += fmt.Sprintf("%s=%v;", k, settings[k])
	}
	l.mu.Lock()
	defer l.mu.Unlock()
	if st := l.memo[memoKey]; st != nil {
		return st, nil
	}
	cfg := vfCfgCopy(l.base).(map[interface{}]interface{})
	for _, k := range keys {
		parts := strings.SplitN(k, ".", 2)
		if len(parts) != 2 {
			return nil, fmt.Errorf("setting %q is not section.key", k)
		}
		sec, _ := cfg[parts[0]].(map[interface{}]interface{})
		if sec == nil {
			sec = map[interface{}]interface{}{}
			cfg[parts[0]] = sec
		}
		if settings[k] == nil {
			delete(sec, parts[1])
		} else {
			sec[parts[1]] = settings[k]
		}
	}
	out, err := yaml.Marshal(cfg)
	if err != nil {
		return nil, err
	}
	if err := ioutil.WriteFile(l.file, out, 0640); err != nil {
		return nil, err
	}
	state, err := loadVerifyConfigFile(l.file, testlogger.New(l.t))
	if err != nil {
		return nil, err
	}
	if unseal {
		if err := state.unsealCA([]byte(vfCfgPassphrase), "verif"); err != nil {
			return nil, fmt.Errorf("unseal: %v", err)
		}
	}
	if state.webAuthn == nil {
		vfConfigureWebAuthn(l.t, state)
	}
	l.memo[memoKey] = state
	return state, nil
}

// vfCfgList turns "a,b" / "-" into the YAML list an operator would write.
func vfCfgList(csv string) []interface{} {
	out := []interface{}{}
	if csv == "-" || csv == "" {
		return out
	}
	for _, x := range strings.Split(csv, ",") {
		out = append(out, x)
	}
	return out
}
