package main

// C04 harness, round 5: requests in flight at the same time.
//
// The property speaks about every request, not about requests that happen to be processed one after the
// other. `ovl` ops present the artefact minted by the real producers to one consumer (foreground, fully
// observed like an `op` line) WHILE the very same bytes are being verified, back to back, by another
// consumer on the same RuntimeState (background). The deployment trusts a long list of keys in front of its
// own (a legal keymaster_public_keys_filename), so that one verification takes tens of milliseconds and the
// foreground request starts, runs and ends inside background verifications. Every decision — foreground and
// background — is judged on its own by the property's predicate.

import (
	"crypto"
	"crypto/rand"
	"crypto/rsa"
	"encoding/hex"
	"fmt"
	"math/big"
	"net/http"
	"net/http/httptest"
	"net/url"
	"strconv"
	"strings"
	"sync/atomic"
	"time"
)

const vf4SlowTarget = 25 * time.Millisecond

// vf4DecoyRSA: a public key of the signer's size nobody holds the private half of
func vf4DecoyRSA(bits int) (*rsa.PublicKey, error) {
	b := make([]byte, (bits+7)/8)
	if _, err := rand.Read(b); err != nil {
		return nil, err
	}
	n := new(big.Int).SetBytes(b)
	n.SetBit(n, bits-1, 1)
	n.SetBit(n, 0, 1)
	for i := bits; i < len(b)*8; i++ {
		n.SetBit(n, i, 0)
	}
	return &rsa.PublicKey{N: n, E: 65537}, nil
}

// slowDeployment: trusted keys = decoys…, the deployment's own key; as many decoys as it takes for one
// verification of a session cookie to last about vf4SlowTarget (measured once per run).
func (e *vf4Env) slowDeployment() ([]crypto.PublicKey, time.Duration, error) {
	if e.slowKeys != nil {
		return e.slowKeys, e.slowPer, nil
	}
	bits := e.realRSA.N.BitLen()
	var decoys []crypto.PublicKey
	add := func(n int) error {
		for i := 0; i < n; i++ {
			k, err := vf4DecoyRSA(bits)
			if err != nil {
				return err
			}
			decoys = append(decoys, k)
		}
		return nil
	}
	saved := e.state.KeymasterPublicKeys
	defer func() { e.state.KeymasterPublicKeys = saved }()
	if err := add(300); err != nil {
		return nil, 0, err
	}
	var per time.Duration
	for round := 0; ; round++ {
		keys := append(append([]crypto.PublicKey{}, decoys...), e.realRSA.Public())
		e.state.KeymasterPublicKeys = keys
		best := time.Hour
		for i := 0; i < 3; i++ {
			start := time.Now()
			if _, err := e.state.getAuthInfoFromAuthJWT(e.base["session"]); err != nil {
				return nil, 0, fmt.Errorf("slow deployment does not verify its own cookie: %v", err)
			}
			if d := time.Since(start); d < best {
				best = d
			}
		}
		per = best
		if per >= vf4SlowTarget || len(decoys) >= 40000 || round >= 6 {
			e.slowKeys, e.slowPer = keys, per
			return keys, per, nil
		}
		each := per / time.Duration(len(decoys)+1)
		if each <= 0 {
			each = time.Microsecond
		}
		need := int(vf4SlowTarget*12/10/each) - len(decoys)
		if need < 100 {
			need = 100
		}
		if len(decoys)+need > 40000 {
			need = 40000 - len(decoys)
		}
		if err := add(need); err != nil {
			return nil, 0, err
		}
	}
}

// bgCall: one request of the background consumer carrying tok, without touching the fixture's shared
// settings; reports whether the consumer honoured it and the context it was made in (the model's slots).
func (e *vf4Env) bgCall(consumer, tok string) (acc bool, slots [5]string) {
	st := e.state
	slots = vf4Slots()
	form := url.Values{}
	form.Set("token", tok)
	switch consumer {
	case "session":
		slots = vf4Slots("2")
		r := httptest.NewRequest("GET", "/", nil)
		r.AddCookie(&http.Cookie{Name: authCookieName, Value: tok})
		_, err := st.checkAuth(httptest.NewRecorder(), r, 2)
		acc = err == nil
	case "upgrade":
		slots = vf4Slots("10")
		r := httptest.NewRequest("POST", "/", nil)
		r.AddCookie(&http.Cookie{Name: authCookieName, Value: tok})
		_, err := vfUpgradeCookie(st, httptest.NewRecorder(), r, vf4TokenSubject(tok), 10)
		acc = err == nil
	case "cliVerify":
		r := httptest.NewRequest("POST", "/", strings.NewReader(form.Encode()))
		r.Header.Set("Content-Type", "application/x-www-form-urlencoded")
		rr, _ := vfServe(st.VerifyAuthTokenHandler, r)
		acc = rr.Code == 200
	case "cliSend":
		slots = vf4Slots(vfHex(vf4User), strconv.Itoa(AuthTypePassword))
		cookie, err := st.genNewSerializedAuthJWT(vf4User, AuthTypePassword, 1000)
		if err != nil {
			return false, slots
		}
		form.Set("port", "12345")
		r := httptest.NewRequest("POST", "/", strings.NewReader(form.Encode()))
		r.Header.Set("Content-Type", "application/x-www-form-urlencoded")
		r.AddCookie(&http.Cookie{Name: authCookieName, Value: cookie})
		rr, _ := vfServe(st.SendAuthDocumentHandler, r)
		acc = rr.Code == http.StatusPermanentRedirect
	case "storage":
		// the verification GetSigned performs on the row's jws_data (the table itself belongs to the foreground)
		_, err := st.getStorageDataFromStorageStringDataJWT(tok)
		acc = err == nil
	case "code":
		slots = vf4Slots(vfHex(vf4ClientA), vfHex(vf4RedirectA), "1")
		f := url.Values{}
		f.Set("grant_type", "authorization_code")
		f.Set("redirect_uri", vf4RedirectA)
		f.Set("code", tok)
		r := httptest.NewRequest("POST", idpOpenIDCTokenPath, strings.NewReader(f.Encode()))
		r.Header.Set("Content-Type", "application/x-www-form-urlencoded")
		r.SetBasicAuth(vf4ClientA, vf4SecretA)
		rr, _ := vfServe(st.idpOpenIDCTokenHandler, r)
		acc = rr.Code == 200
	case "access":
		r := httptest.NewRequest("GET", idpOpenIDCUserinfoPath, nil)
		r.Header.Set("Authorization", "Bearer "+tok)
		rr, _ := vfServe(st.idpOpenIDCUserinfoHandler, r)
		acc = rr.Code == 200
	}
	return acc, slots
}

// vf4OvlOp
//
//	ovl <foreground consumer> <background consumer> <kind>
//
// Output: an `op` line for the foreground request, plus
// `bg=<consumer> bgn=<background requests completed> bgacc= bgrej= bgslots= bgnow= inflight=<background
// verifications running when the foreground request started> vus=<µs one verification takes> nkeys=`.
func (e *vf4Env) vf4OvlOp(f []string) string {
	fg, bg, kind := f[1], f[2], f[3]
	tok, ok := e.base[kind]
	if !ok {
		return "bad-op"
	}
	known := false
	for _, c := range []string{"session", "upgrade", "cliVerify", "cliSend", "storage", "code", "access"} {
		known = known || c == bg
	}
	if !known {
		return "bad-op"
	}
	keys, per, err := e.slowDeployment()
	if err != nil {
		return "harness-error " + strings.Join(strings.Fields(err.Error()), "_")
	}
	savedKeys, savedFixed := e.state.KeymasterPublicKeys, e.fixedKeys
	e.state.KeymasterPublicKeys = keys
	e.fixedKeys = true // the consumers' own fixture code must not swap the deployment under the running requests
	e.setRequired(AuthTypePassword)
	defer func() {
		e.fixedKeys = savedFixed
		e.state.KeymasterPublicKeys = savedKeys
	}()
	payload, _ := vf4Payload(tok)

	var begun, ended, nacc, nrej int64
	var stop int32
	var bgSlots [5]string
	started := make(chan struct{})
	done := make(chan struct{})
	bgNow := time.Now().Unix()
	go func() {
		defer close(done)
		first := true
		for atomic.LoadInt32(&stop) == 0 {
			atomic.AddInt64(&begun, 1)
			if first {
				close(started)
				first = false
			}
			acc, slots := e.bgCall(bg, tok)
			bgSlots = slots
			if acc {
				atomic.AddInt64(&nacc, 1)
			} else {
				atomic.AddInt64(&nrej, 1)
			}
			atomic.AddInt64(&ended, 1)
		}
	}()
	<-started
	time.Sleep(per / 3)
	inflight := atomic.LoadInt64(&begun) - atomic.LoadInt64(&ended)
	pre := e.dbDigest()
	now := time.Now().Unix()
	res, cerr := e.consume(fg, tok, vf4Ctx("-"), now)
	atomic.StoreInt32(&stop, 1)
	<-done
	if cerr != nil {
		return "harness-error " + strings.Join(strings.Fields(cerr.Error()), "_")
	}
	if strings.HasPrefix(res.extra, "dbpre=") {
		pre = strings.Fields(res.extra)[0][6:]
		res.extra = ""
	}
	db := 0
	if e.dbDigest() != pre {
		db = 1
	}
	return fmt.Sprintf("%s | fx=%d%d%d db=%d now=%d same=1 slots=%s wire=%s bg=%s bgn=%d bgacc=%d bgrej=%d bgslots=%s bgnow=%d inflight=%d vus=%d nkeys=%d %s",
		res.dec, res.sc, res.ho, res.di, db, now, strings.Join(res.slots[:], ","), hex.EncodeToString(payload),
		bg, atomic.LoadInt64(&ended), atomic.LoadInt64(&nacc), atomic.LoadInt64(&nrej), strings.Join(bgSlots[:], ","), bgNow,
		inflight, per.Microseconds(), len(keys), res.extra)
}
