package main

// C05 harness: a stateful op interpreter over the REAL second-factor handlers.
//
// The world outside keymaster (passwords, the Symantec VIP service, the Okta
// service, the users' TOTP secrets, bootstrap OTP values, hardware tokens and
// the clock) is played by this file; keymaster's handlers run unmodified and
// in-process.  One output line per op:
//
//	<status> <cookies|-> <events|->
//
// cookies = comma list of <uid>:<level> decoded from every auth cookie the
// server handed out in this response; events = comma list of <factor>:<uid>
// ground-truth verification events (what the external verifier of that factor
// established, and for whom) -- the judge builds its log from these only.
//
// Time: one `tick` advances the virtual clock by 30 s by shifting every stored
// timestamp 30 s into the past (all comparisons in the code are relative to
// time.Now()); TOTP codes are minted for virtual steps.  `sweep` runs one real
// pass of performStateCleanup.

import (
	"bytes"
	"crypto/ecdsa"
	"crypto/elliptic"
	"crypto/rand"
	"crypto/sha256"
	"crypto/sha512"
	"crypto/tls"
	"crypto/x509"
	"crypto/x509/pkix"
	"database/sql"
	"database/sql/driver"
	"encoding/asn1"
	"encoding/base64"
	"encoding/binary"
	"encoding/json"
	"errors"
	"fmt"
	"io"
	"math/big"
	"net"
	"net/http"
	"net/http/httptest"
	"net/url"
	"os"
	"path/filepath"
	"regexp"
	"strconv"
	"strings"
	"sync"
	"sync/atomic"
	"testing"
	"time"

	"github.com/Cloud-Foundations/keymaster/lib/authenticators/okta"
	"github.com/Cloud-Foundations/keymaster/lib/certgen"
	"github.com/Cloud-Foundations/keymaster/lib/paths"
	"github.com/Cloud-Foundations/keymaster/lib/pwauth"
	"github.com/Cloud-Foundations/keymaster/lib/pwauth/htpassword"
	"github.com/Cloud-Foundations/keymaster/lib/vip"
	"github.com/Cloud-Foundations/keymaster/lib/webapi/v0/proto"
	"github.com/duo-labs/webauthn/webauthn"
	sqlite3 "github.com/mattn/go-sqlite3"
	"github.com/pquerna/otp/totp"
	"github.com/tstranex/u2f"
	"golang.org/x/crypto/bcrypt"
)

// The two users. Two naming schemes (chosen by `reset`): plain names, or names that share their local
// part -- staff "alice" and partner "alice@partner.example" are DIFFERENT keymaster users whenever the
// operator's okta.username_filter_regexp does not strip every domain (anything keyed by a prefix, a
// normalised or a truncated user name would confuse them).
var c05Users = []string{"alice", "bob"}

var c05NameSchemes = map[bool][]string{false: {"alice", "bob"}, true: {"alice", "alice@partner.example"}}

// the operator's okta.username_filter_regexp in the shared-local-part scheme: only the staff domain is stripped
var c05StaffFilter = regexp.MustCompile(`@corp\.example$`)

const c05Password = "correct horse"

// ---------------------------------------------------------------- mock Symantec VIP (SOAP over TLS)

type c05VIP struct {
	mu       sync.Mutex
	owner    []string // transaction k was pushed to owner[k]
	approved []bool
	events   []string // ground truth produced by the service during the current op
}

var c05reUser = regexp.MustCompile(`userId>([^<]*)<`)
var c05reTx = regexp.MustCompile(`transactionId>([^<]*)<`)
var c05reCred = regexp.MustCompile(`credentialId>([^<]*)<`)
var c05reOTP = regexp.MustCompile(`otp>([^<]*)<`)

func c05VipOTP(uid int) int { return 100001 + 111111*uid }

func c05Uid(name string) int {
	for i, u := range c05Users {
		if u == name {
			return i
		}
	}
	return -1
}

func (m *c05VIP) ServeHTTP(w http.ResponseWriter, r *http.Request) {
	body, _ := io.ReadAll(r.Body)
	s := string(body)
	m.mu.Lock()
	defer m.mu.Unlock()
	const env = `<?xml version="1.0"?><S:Envelope xmlns:S="http://schemas.xmlsoap.org/soap/envelope/"><S:Body>%s</S:Body></S:Envelope>`
	const ns = `xmlns="https://schemas.symantec.com/vip/2011/04/vipuserservices"`
	switch {
	case strings.Contains(s, "AuthenticateUserWithPushRequest"):
		user := c05reUser.FindStringSubmatch(s)[1]
		tx := len(m.owner)
		m.owner = append(m.owner, user)
		m.approved = append(m.approved, false)
		fmt.Fprintf(w, env, fmt.Sprintf(`<AuthenticateUserWithPushResponse %s><requestId>1</requestId><status>6040</status><statusMessage>sent</statusMessage><transactionId>tx%d</transactionId></AuthenticateUserWithPushResponse>`, ns, tx))
	case strings.Contains(s, "PollPushStatusRequest"):
		txs := c05reTx.FindStringSubmatch(s)[1]
		k, err := strconv.Atoi(strings.TrimPrefix(txs, "tx"))
		if err != nil || k < 0 || k >= len(m.owner) {
			w.WriteHeader(500)
			return
		}
		st := "7001"
		if m.approved[k] {
			st = "7000"
		}
		fmt.Fprintf(w, env, fmt.Sprintf(`<PollPushStatusResponse %s><requestId>1</requestId><status>0000</status><statusMessage>ok</statusMessage><transactionStatus><transactionId>%s</transactionId><status>%s</status><statusMessage>x</statusMessage></transactionStatus></PollPushStatusResponse>`, ns, txs, st))
	case strings.Contains(s, "GetUserInfoRequest"):
		user := c05reUser.FindStringSubmatch(s)[1]
		binding := ""
		if c05Uid(user) >= 0 {
			binding = fmt.Sprintf(`<credentialBindingDetail><credentialId>tok-%s</credentialId><credentialType>STANDARD_OTP</credentialType><credentialStatus>ENABLED</credentialStatus><bindingDetail><bindStatus>ENABLED</bindStatus></bindingDetail></credentialBindingDetail>`, user)
		}
		fmt.Fprintf(w, env, fmt.Sprintf(`<GetUserInfoResponse %s><requestId>1</requestId><status>0000</status><statusMessage>Success</statusMessage><userId>%s</userId><userStatus>ACTIVE</userStatus><numBindings>1</numBindings>%s</GetUserInfoResponse>`, ns, user, binding))
	case strings.Contains(s, "AuthenticateCredentialsRequest"):
		cred := c05reCred.FindStringSubmatch(s)[1]
		otp, _ := strconv.Atoi(c05reOTP.FindStringSubmatch(s)[1])
		uid := c05Uid(strings.TrimPrefix(cred, "tok-"))
		st := "6009"
		if uid >= 0 && otp == c05VipOTP(uid) {
			st = "0000"
			m.events = append(m.events, fmt.Sprintf("vip:%d", uid))
		}
		fmt.Fprintf(w, env, fmt.Sprintf(`<AuthenticateCredentialsResponse %s><requestId>1</requestId><status>%s</status><statusMessage>x</statusMessage></AuthenticateCredentialsResponse>`, ns, st))
	default:
		w.WriteHeader(500)
	}
}

// ---------------------------------------------------------------- mock Okta (JSON over HTTP)

type c05Okta struct {
	mu       sync.Mutex
	pushed   [2]bool
	approved [2]bool
	events   []string
}

func c05OktaOTP(uid int) int { return 300003 + 111111*uid }

func (m *c05Okta) authn(w http.ResponseWriter, r *http.Request) {
	var ld okta.OktaApiLoginDataType
	if json.NewDecoder(r.Body).Decode(&ld) != nil {
		w.WriteHeader(400)
		return
	}
	uid := c05Uid(ld.Username)
	if uid < 0 || ld.Password != c05Password {
		w.WriteHeader(http.StatusUnauthorized)
		return
	}
	resp := okta.OktaApiPrimaryResponseType{
		StateToken:      fmt.Sprintf("st-%d", uid),
		ExpiresAtString: "2035-11-03T10:15:57.000Z",
		Status:          "MFA_REQUIRED",
		Embedded: okta.OktaApiEmbeddedDataResponseType{Factor: []okta.OktaApiMFAFactorsType{
			{Id: "totpid", FactorType: "token:software:totp", VendorName: "OKTA"},
			{Id: "pushid", FactorType: "push", VendorName: "OKTA"}}},
	}
	json.NewEncoder(w).Encode(resp)
}

func (m *c05Okta) verify(w http.ResponseWriter, r *http.Request) {
	var d okta.OktaApiVerifyTOTPFactorDataType
	if json.NewDecoder(r.Body).Decode(&d) != nil {
		w.WriteHeader(400)
		return
	}
	uid, err := strconv.Atoi(strings.TrimPrefix(d.StateToken, "st-"))
	if err != nil || uid < 0 || uid > 1 {
		w.WriteHeader(http.StatusUnauthorized)
		return
	}
	m.mu.Lock()
	defer m.mu.Unlock()
	if strings.Contains(r.URL.Path, "totpid") {
		if d.PassCode == fmt.Sprintf("%06d", c05OktaOTP(uid)) {
			m.events = append(m.events, fmt.Sprintf("okta:%d", uid))
			json.NewEncoder(w).Encode(okta.OktaApiPrimaryResponseType{Status: "SUCCESS"})
			return
		}
		w.WriteHeader(http.StatusForbidden)
		return
	}
	// push factor: calling verify (re)sends the push; answer by approval state
	m.pushed[uid] = true
	if m.approved[uid] {
		json.NewEncoder(w).Encode(okta.OktaApiPushResponseType{Status: "SUCCESS"})
		return
	}
	json.NewEncoder(w).Encode(okta.OktaApiPushResponseType{Status: "MFA_CHALLENGE", FactorResult: "WAITING"})
}

// ---------------------------------------------------------------- software hardware tokens

type c05Token struct {
	key       *ecdsa.PrivateKey
	keyHandle []byte
	counter   uint32
}

func c05NewToken(label string) *c05Token {
	k, err := ecdsa.GenerateKey(elliptic.P256(), rand.Reader)
	if err != nil {
		panic(err)
	}
	kh := sha256.Sum256([]byte("keyhandle-" + label))
	return &c05Token{key: k, keyHandle: kh[:]}
}

func (tk *c05Token) pubRaw() []byte {
	return elliptic.Marshal(elliptic.P256(), tk.key.PublicKey.X, tk.key.PublicKey.Y)
}

// u2fRegistration builds a raw U2F registration record (as stored in profiles).
func (tk *c05Token) u2fRegistration() *u2f.Registration {
	tmpl := &x509.Certificate{SerialNumber: big.NewInt(1), Subject: pkix.Name{CommonName: "verif soft token"},
		NotBefore: time.Now().Add(-time.Hour), NotAfter: time.Now().Add(24 * time.Hour)}
	der, err := x509.CreateCertificate(rand.Reader, tmpl, tmpl, &tk.key.PublicKey, tk.key)
	if err != nil {
		panic(err)
	}
	sig, _ := asn1.Marshal(struct{ R, S *big.Int }{big.NewInt(1), big.NewInt(1)})
	raw := []byte{0x05}
	raw = append(raw, tk.pubRaw()...)
	raw = append(raw, byte(len(tk.keyHandle)))
	raw = append(raw, tk.keyHandle...)
	raw = append(raw, der...)
	raw = append(raw, sig...)
	var reg u2f.Registration
	if err := reg.UnmarshalBinary(raw); err != nil {
		panic(err)
	}
	return &reg
}

func (tk *c05Token) coseKey() []byte {
	x := tk.key.PublicKey.X.FillBytes(make([]byte, 32))
	y := tk.key.PublicKey.Y.FillBytes(make([]byte, 32))
	out := []byte{0xa5, 0x01, 0x02, 0x03, 0x26, 0x20, 0x01, 0x21, 0x58, 0x20}
	out = append(out, x...)
	out = append(out, 0x22, 0x58, 0x20)
	out = append(out, y...)
	return out
}

func c05b64(b []byte) string { return strings.TrimRight(base64.URLEncoding.EncodeToString(b), "=") }

func (tk *c05Token) sign(msg []byte) []byte {
	h := sha256.Sum256(msg)
	r, s, err := ecdsa.Sign(rand.Reader, tk.key, h[:])
	if err != nil {
		panic(err)
	}
	sig, _ := asn1.Marshal(struct{ R, S *big.Int }{r, s})
	return sig
}

// u2fAssertion: body for /u2f/SignResponse over the given challenge bytes.
func (tk *c05Token) u2fAssertion(challenge []byte) []byte {
	tk.counter++
	cd, _ := json.Marshal(u2f.ClientData{Typ: "navigator.id.getAssertion", Challenge: c05b64(challenge), Origin: u2fAppID})
	app := sha256.Sum256([]byte(u2fAppID))
	cdh := sha256.Sum256(cd)
	raw := []byte{1, 0, 0, 0, 0}
	binary.BigEndian.PutUint32(raw[1:], tk.counter)
	var buf []byte
	buf = append(buf, app[:]...)
	buf = append(buf, raw...)
	buf = append(buf, cdh[:]...)
	sd := append(append([]byte{}, raw...), tk.sign(buf)...)
	body, _ := json.Marshal(u2f.SignResponse{KeyHandle: c05b64(tk.keyHandle), SignatureData: c05b64(sd), ClientData: c05b64(cd)})
	return body
}

// waAssertion: body for /webauthn/AuthFinish/ over the given challenge bytes.
// asU2F: the credential is a U2F registration (rpIdHash = hash of the AppID).
func (tk *c05Token) waAssertion(challenge []byte, rpID string, asU2F bool) []byte {
	tk.counter++
	cd, _ := json.Marshal(map[string]string{"type": "webauthn.get", "challenge": base64.RawURLEncoding.EncodeToString(challenge), "origin": u2fAppID})
	idh := sha256.Sum256([]byte(rpID))
	if asU2F {
		idh = sha256.Sum256([]byte(u2fAppID))
	}
	ad := append([]byte{}, idh[:]...)
	ad = append(ad, 0x01, 0, 0, 0, 0)
	binary.BigEndian.PutUint32(ad[33:], tk.counter)
	cdh := sha256.Sum256(cd)
	sig := tk.sign(append(append([]byte{}, ad...), cdh[:]...))
	e := base64.RawURLEncoding.EncodeToString
	body, _ := json.Marshal(map[string]interface{}{
		"id": e(tk.keyHandle), "rawId": e(tk.keyHandle), "type": "public-key",
		"response": map[string]string{"authenticatorData": e(ad), "clientDataJSON": e(cd), "signature": e(sig)},
	})
	return body
}

// ---------------------------------------------------------------- world

type c05Cookie struct {
	val   string
	uid   int
	level int
}

type c05World struct {
	t        *testing.T
	state    *RuntimeState
	vip      *c05VIP
	okta     *c05Okta
	htpw     pwauth.PasswordAuthenticator
	oktapw   pwauth.PasswordAuthenticator
	totpSec  [2]string
	totpEnc  [2][][]byte
	u2fTok   [2]*c05Token
	waTok    [2]*c05Token
	strayTok *c05Token
	kmCA     *x509.Certificate
	certs    [2]*x509.Certificate
	// per sequence
	jar      []c05Cookie
	toks     map[string]string // CLI tokens handed out, by "<uid>:<expiry tick>"
	chals    [][]byte          // challenges handed out by begin ops (raw bytes)
	asserts  map[string][]byte
	assertCt map[string]uint32 // signature counter inside each cached assertion
	off      int64             // virtual step = real step + off
	flags    [2]int
	bootLife [2]int
	vnow     int
}

const (
	c05FlagTOTP = 1
	c05FlagU2F  = 2
	c05FlagWA   = 4
	// the stored profile was never touched by the webauthn registration path
	c05FlagLegacy = 8
)

func c05BootValue(uid int) string { return fmt.Sprintf("bootstrap-otp-of-%s", c05Users[uid]) }

func c05Setup(t *testing.T) (*c05World, func()) {
	state, cleanup := vfNewState(t)
	c05FaultDB(t, state)
	w := &c05World{t: t, state: state, vip: &c05VIP{}, okta: &c05Okta{}}
	// password backend with two users
	f, err := os.CreateTemp("", "vfc05pw")
	if err != nil {
		t.Fatal(err)
	}
	for _, u := range []string{"alice", "bob", "alice@partner.example"} {
		h, err := bcrypt.GenerateFromPassword([]byte(c05Password), bcrypt.MinCost)
		if err != nil {
			t.Fatal(err)
		}
		fmt.Fprintf(f, "%s:%s\n", u, strings.Replace(string(h), "$2a$", "$2y$", 1))
	}
	f.Close()
	w.htpw, err = htpassword.New(f.Name(), logger)
	if err != nil {
		t.Fatal(err)
	}
	state.passwordChecker = w.htpw
	// VIP
	vsrv := httptest.NewUnstartedServer(w.vip)
	vsrv.Config.SetKeepAlivesEnabled(false)
	vsrv.StartTLS()
	pool := x509.NewCertPool()
	pool.AddCert(vsrv.Certificate())
	cl, err := vip.NewClient([]byte(localhostCertPem), []byte(localhostKeyPem))
	if err != nil {
		t.Fatal(err)
	}
	cl.VipUserServicesURL = vsrv.URL + "/q"
	cl.VipUserServiceAuthenticationURL = vsrv.URL + "/a"
	cl.RootCAs = pool
	state.Config.SymantecVIP.Client = &cl
	state.Config.SymantecVIP.Enabled = true
	// Okta
	ln, err := net.Listen("tcp", "127.0.0.1:")
	if err != nil {
		t.Fatal(err)
	}
	mux := http.NewServeMux()
	mux.HandleFunc("/api/v1/authn", w.okta.authn)
	mux.HandleFunc("/api/v1/authn/factors/", w.okta.verify)
	osrv := &http.Server{Handler: mux}
	go osrv.Serve(ln)
	c05OktaURL = "http://" + ln.Addr().String() + "/api/v1/authn"
	w.oktapw, err = okta.NewPublicTesting(c05OktaURL, logger)
	if err != nil {
		t.Fatal(err)
	}
	// config
	state.HostIdentity = "keymaster.example.com"
	state.Config.Base.AllowedAuthBackendsForCerts = []string{proto.AuthTypeU2F, proto.AuthTypeSymantecVIP, proto.AuthTypeTOTP, proto.AuthTypeOkta2FA}
	state.Config.Base.AllowedAuthBackendsForWebUI = []string{proto.AuthTypeU2F, proto.AuthTypeSymantecVIP, proto.AuthTypeTOTP, proto.AuthTypeOkta2FA, proto.AuthTypeBootstrapOTP}
	state.Config.Base.EnableLocalTOTP = true
	state.Config.Okta.Enable2FA = true
	state.Config.Base.WebauthTokenForCliLifetime = time.Hour
	u2fAppID = "https://" + state.HostIdentity
	u2fTrustedFacets = []string{u2fAppID}
	state.webAuthn, err = webauthn.New(&webauthn.Config{RPDisplayName: "Keymaster Server", RPID: state.HostIdentity, RPOrigin: u2fAppID})
	if err != nil {
		t.Fatal(err)
	}
	// secrets and tokens of the two users
	for i, u := range c05Users {
		key, err := totp.Generate(totp.GenerateOpts{Issuer: "verif", AccountName: u})
		if err != nil {
			t.Fatal(err)
		}
		w.totpSec[i] = key.Secret()
		w.totpEnc[i], err = state.encryptWithPublicKeys([]byte(key.Secret()))
		if err != nil {
			t.Fatal(err)
		}
		w.u2fTok[i] = c05NewToken("u2f-" + u)
		w.waTok[i] = c05NewToken("wa-" + u)
	}
	w.strayTok = c05NewToken("stray")
	return w, func() {
		vsrv.Close()
		osrv.Close()
		os.Remove(f.Name())
		cleanup()
	}
}

func (w *c05World) reset(f0, b0, f1, b1 int, oktaMode bool, sharedLocalPart bool) {
	c05Users = c05NameSchemes[sharedLocalPart]
	w.certs = [2]*x509.Certificate{}
	w.state.oktaUsernameFilterRE = nil
	if oktaMode && sharedLocalPart {
		w.state.oktaUsernameFilterRE = c05StaffFilter
	}
	atomic.StoreInt32(&c05FailSave, 0)
	atomic.StoreInt32(&c05FailLoad, 0)
	st := w.state
	st.Mutex.Lock()
	st.vipPushCookie = make(map[string]pushPollTransaction)
	st.localAuthData = make(map[string]localUserData)
	st.Mutex.Unlock()
	st.totpLocalTateLimitMutex.Lock()
	st.totpLocalRateLimit = make(map[string]totpRateLimitInfo)
	st.totpLocalTateLimitMutex.Unlock()
	w.vip.mu.Lock()
	w.vip.owner, w.vip.approved, w.vip.events = nil, nil, nil
	w.vip.mu.Unlock()
	w.okta.mu.Lock()
	w.okta.pushed, w.okta.approved, w.okta.events = [2]bool{}, [2]bool{}, nil
	w.okta.mu.Unlock()
	if oktaMode {
		// a fresh authenticator: no cached primary authentications
		pa, _ := okta.NewPublicTesting(c05OktaURL, logger)
		w.oktapw = pa
		st.passwordChecker = pa
	} else {
		st.passwordChecker = w.htpw
	}
	w.jar, w.toks, w.chals = nil, map[string]string{}, nil
	w.asserts = map[string][]byte{}
	w.assertCt = map[string]uint32{}
	w.off, w.vnow = 0, 0
	w.flags = [2]int{f0, f1}
	w.bootLife = [2]int{b0, b1}
	for i, u := range c05Users {
		p := &userProfile{U2fAuthData: map[int64]*u2fAuthData{}, TOTPAuthData: map[int64]*totpAuthData{},
			WebauthnData: map[int64]*webauthAuthData{}}
		if w.flags[i]&c05FlagLegacy != 0 && w.flags[i]&c05FlagWA == 0 {
			// enrolled only through the legacy /u2f/Register* endpoints (or a profile that predates
			// webauthn): FixupCredential never ran, so Username, DisplayName, WebauthnID and
			// WebauthnData inside the stored profile are all empty
			p.WebauthnData = nil
		} else {
			p.FixupCredential(u, u)
			p.WebauthnID = uint64(1000 + i)
		}
		if w.flags[i]&c05FlagTOTP != 0 {
			p.TOTPAuthData[1] = &totpAuthData{Enabled: true, CreatedAt: time.Now(), EncryptedSecret: w.totpEnc[i]}
		}
		if w.flags[i]&c05FlagU2F != 0 {
			p.U2fAuthData[1] = &u2fAuthData{Enabled: true, CreatedAt: time.Now(), Registration: w.u2fTok[i].u2fRegistration()}
			p.UserHasRegistered2ndFactor = true
		}
		if w.flags[i]&c05FlagWA != 0 {
			p.WebauthnData[1] = &webauthAuthData{Enabled: true, CreatedAt: time.Now(), Credential: webauthn.Credential{
				ID: w.waTok[i].keyHandle, PublicKey: w.waTok[i].coseKey(), AttestationType: "none",
				Authenticator: webauthn.Authenticator{AAGUID: make([]byte, 16)}}}
		}
		if w.bootLife[i] > 0 {
			h := sha512.Sum512([]byte(c05BootValue(i)))
			p.BootstrapOTP = bootstrapOTPData{ExpiresAt: time.Now().Add(time.Duration(w.bootLife[i]) * 30 * time.Second), Sha512Hash: h[:]}
		}
		if err := st.SaveUserProfile(u, p); err != nil {
			w.t.Fatal(err)
		}
	}
}

var c05OktaURL string

// tick: 30 s pass.
func (w *c05World) tick() { c05NoFaults(w.tick0) }

func (w *c05World) tick0() {
	const d = 30 * time.Second
	st := w.state
	st.Mutex.Lock()
	for k, v := range st.vipPushCookie {
		v.ExpiresAt = v.ExpiresAt.Add(-d)
		st.vipPushCookie[k] = v
	}
	for k, v := range st.localAuthData {
		v.ExpiresAt = v.ExpiresAt.Add(-d)
		if v.U2fAuthChallenge != nil {
			c := *v.U2fAuthChallenge
			c.Timestamp = c.Timestamp.Add(-d)
			v.U2fAuthChallenge = &c
		}
		st.localAuthData[k] = v
	}
	st.Mutex.Unlock()
	for _, u := range c05Users {
		p, ok, _, err := st.LoadUserProfile(u)
		if err != nil || !ok {
			w.t.Fatalf("tick: profile %s: %v", u, err)
		}
		ch := false
		if len(p.BootstrapOTP.Sha512Hash) > 0 {
			p.BootstrapOTP.ExpiresAt = p.BootstrapOTP.ExpiresAt.Add(-d)
			ch = true
		}
		if p.LastSuccessfullTOTPCounter != 0 {
			p.LastSuccessfullTOTPCounter--
			ch = true
		}
		if ch {
			if err := st.SaveUserProfile(u, p); err != nil {
				w.t.Fatal(err)
			}
		}
	}
	w.off++
	w.vnow++
}

// sweep: one real pass of performStateCleanup (the goroutine then sleeps for an hour).
func (w *c05World) sweep() {
	st := w.state
	const sentinel = "verif-c05-sentinel"
	st.Mutex.Lock()
	st.pendingOauth2[sentinel] = pendingAuth2Request{ExpiresAt: time.Now().Add(-time.Hour)}
	st.Mutex.Unlock()
	go st.performStateCleanup(3600)
	for i := 0; i < 5000; i++ {
		st.Mutex.Lock()
		_, there := st.pendingOauth2[sentinel]
		st.Mutex.Unlock()
		if !there {
			return
		}
		time.Sleep(200 * time.Microsecond)
	}
	w.t.Fatal("sweep did not complete")
}

func (w *c05World) clearTOTPRateLimit() {
	st := w.state
	st.totpLocalTateLimitMutex.Lock()
	st.totpLocalRateLimit = make(map[string]totpRateLimitInfo)
	st.totpLocalTateLimitMutex.Unlock()
}

// totpCode: the code user `owner` 's authenticator app shows at virtual step vstep.
func (w *c05World) totpCode(owner int, vstep int64) string {
	realStep := vstep - w.off
	code, err := totp.GenerateCode(w.totpSec[owner], time.Unix(realStep*30+1, 0))
	if err != nil {
		w.t.Fatal(err)
	}
	return code
}

// avoidCollision: a 6 digit code that is meant to be wrong for some user (other owner, or
// outside the window) equals one of that user's three currently valid codes with
// probability 3e-6; nudge it so that the run stays deterministic.
func (w *c05World) avoidCollision(code string, owner int, d int) string {
	for tries := 0; tries < 10; tries++ {
		clash := false
		for u := range c05Users {
			for dd := int64(-1); dd <= 1; dd++ {
				if u == owner && int64(d) == dd {
					continue
				}
				if w.totpCode(u, w.realStepNow()+w.off+dd) == code {
					clash = true
				}
			}
		}
		if !clash {
			return code
		}
		n, _ := strconv.Atoi(code)
		code = fmt.Sprintf("%06d", (n+1)%1000000)
	}
	return code
}

// clientCert: a keymaster-issued X.509 client certificate of user uid (made once per world), and the CA
func (w *c05World) clientCert(uid int) (*x509.Certificate, *x509.Certificate) {
	if w.kmCA == nil {
		ca, err := x509.ParseCertificate(w.state.caCertDer[0])
		if err != nil {
			panic(err)
		}
		w.kmCA = ca
	}
	if w.certs[uid] == nil {
		pub, err := getPubKeyFromPem(testUserPEMPublicKey)
		if err != nil {
			panic(err)
		}
		der, err := certgen.GenUserX509Cert(c05Users[uid], pub, w.kmCA, w.state.Signer, nil, time.Hour, nil, nil, nil, logger)
		if err != nil {
			panic(err)
		}
		w.certs[uid], err = x509.ParseCertificate(der)
		if err != nil {
			panic(err)
		}
	}
	return w.certs[uid], w.kmCA
}

func (w *c05World) realStepNow() int64 { return time.Now().Unix() / 30 }

// attach adds the referenced session cookies IN ORDER: refs joined by "+", each "<uid>:<level>" = the
// most recent cookie the server issued with that subject and level (a value that does not verify
// if there is none) or "x" = garbage; "-" = none at all. A request may carry several cookies named auth_cookie.
func (w *c05World) attach(req *http.Request, refs string) {
	if refs == "-" {
		return
	}
	const garbage = "eyJhbGciOiJSUzI1NiJ9.e30.AAAA"
	for _, ref := range strings.Split(refs, "+") {
		if strings.HasPrefix(ref, "cert") {
			// "cert<uid>": the request arrives over TLS with a verified keymaster-issued client certificate of
			// that user (chain [leaf, CA], as crypto/tls hands it over), whatever cookies it also carries
			uid := c05Atoi(ref[4:])
			if uid == 0 || uid == 1 {
				leaf, ca := w.clientCert(uid)
				req.TLS = &tls.ConnectionState{VerifiedChains: [][]*x509.Certificate{{leaf, ca}},
					PeerCertificates: []*x509.Certificate{leaf}}
			}
			continue
		}
		val := garbage // "x", or a (subject, level) the server never issued: a value that does not verify
		for i := len(w.jar) - 1; i >= 0; i-- {
			if fmt.Sprintf("%d:%d", w.jar[i].uid, w.jar[i].level) == ref {
				val = w.jar[i].val
				break
			}
		}
		req.AddCookie(&http.Cookie{Name: authCookieName, Value: val})
	}
}

// ---------------------------------------------------------------- storage faults
// A wrapping database/sql driver around sqlite3: while a fault is armed, statements of the profile
// table on the PRIMARY database fail (writes: read-only replica / full disk; reads: primary down).

type c05FaultDriver struct{ inner driver.Driver }

var c05FailSave, c05FailLoad, c05SaveExecs int32

func (d c05FaultDriver) Open(name string) (driver.Conn, error) {
	c, err := d.inner.Open(name)
	if err != nil {
		return nil, err
	}
	return &c05FaultConn{c}, nil
}

type c05FaultConn struct{ driver.Conn }

func (c *c05FaultConn) Prepare(q string) (driver.Stmt, error) {
	st, err := c.Conn.Prepare(q)
	if err != nil {
		return nil, err
	}
	return &c05FaultStmt{Stmt: st, kind: vfClassify(q)}, nil
}

type c05FaultStmt struct {
	driver.Stmt
	kind string
}

func (s *c05FaultStmt) Exec(args []driver.Value) (driver.Result, error) {
	if s.kind == "save" {
		defer atomic.AddInt32(&c05SaveExecs, 1)
		if atomic.LoadInt32(&c05FailSave) != 0 {
			return nil, errors.New("verif: injected write fault (attempt to write a readonly database)")
		}
	}
	return s.Stmt.Exec(args)
}

func (s *c05FaultStmt) Query(args []driver.Value) (driver.Rows, error) {
	if s.kind == "load" && atomic.LoadInt32(&c05FailLoad) != 0 {
		return nil, errors.New("verif: injected read fault (primary unavailable)")
	}
	return s.Stmt.Query(args)
}

var c05FaultRegisterOnce sync.Once

func c05FaultDB(t *testing.T, state *RuntimeState) {
	c05FaultRegisterOnce.Do(func() { sql.Register("sqlite3c05", c05FaultDriver{&sqlite3.SQLiteDriver{}}) })
	path := filepath.Join(state.Config.Base.DataDirectory, profileDBFilename)
	state.db.Close()
	db, err := sql.Open("sqlite3c05", path)
	if err != nil {
		t.Fatal(err)
	}
	state.db = db
}

// noFaults runs the harness's own bookkeeping on the stored profiles with the faults lifted.
func c05NoFaults(f func()) {
	sv, ld := atomic.SwapInt32(&c05FailSave, 0), atomic.SwapInt32(&c05FailLoad, 0)
	defer func() {
		atomic.StoreInt32(&c05FailSave, sv)
		atomic.StoreInt32(&c05FailLoad, ld)
	}()
	f()
}

func (w *c05World) form(path string, ref string, kv ...string) *http.Request {
	form := url.Values{}
	for i := 0; i+1 < len(kv); i += 2 {
		form.Set(kv[i], kv[i+1])
	}
	req := httptest.NewRequest("POST", path, strings.NewReader(form.Encode()))
	req.Header.Set("Content-Type", "application/x-www-form-urlencoded")
	w.attach(req, ref)
	return req
}

func (w *c05World) body(path string, ref string, body []byte) *http.Request {
	req := httptest.NewRequest("POST", path, bytes.NewReader(body))
	req.Header.Set("Content-Type", "application/json")
	w.attach(req, ref)
	return req
}

// collect: decode every auth cookie in the response, remember it in the jar.
func (w *c05World) collect(rr *httptest.ResponseRecorder) []string {
	var out []string
	add := func(val string) {
		info, err := w.state.getAuthInfoFromAuthJWT(val)
		if err != nil {
			out = append(out, "undecodable")
			return
		}
		uid := c05Uid(info.Username)
		w.jar = append(w.jar, c05Cookie{val: val, uid: uid, level: info.AuthType})
		out = append(out, fmt.Sprintf("%d:%d", uid, info.AuthType))
	}
	for _, c := range rr.Result().Cookies() {
		if c.Name == authCookieName && c.Value != "" {
			add(c.Value)
		}
	}
	if loc := rr.Header().Get("Location"); strings.Contains(loc, "auth_cookie=") {
		if u, err := url.Parse(loc); err == nil {
			if v := u.Query().Get("auth_cookie"); v != "" {
				add(v)
			}
		}
	}
	return out
}

func c05Join(l []string) string {
	if len(l) == 0 {
		return "-"
	}
	return strings.Join(l, ",")
}

var c05reToken = regexp.MustCompile(`<code><b>([^<]+)</b></code>`)

func c05Atoi(s string) int {
	n, err := strconv.Atoi(s)
	if err != nil {
		return -1
	}
	return n
}

// exec runs one op; returns status, cookies, events.
func (w *c05World) exec(f []string) (string, []string, []string) {
	st := w.state
	var ev []string
	serve := func(h http.HandlerFunc, req *http.Request) (string, []string, *httptest.ResponseRecorder) {
		w.vip.mu.Lock()
		w.vip.events = nil
		w.vip.mu.Unlock()
		w.okta.mu.Lock()
		w.okta.events = nil
		w.okta.mu.Unlock()
		rr, p := vfServe(h, req)
		w.vip.mu.Lock()
		ev = append(ev, w.vip.events...)
		w.vip.mu.Unlock()
		w.okta.mu.Lock()
		ev = append(ev, w.okta.events...)
		w.okta.mu.Unlock()
		if p != nil {
			return "PANIC", nil, rr
		}
		return strconv.Itoa(rr.Code), w.collect(rr), rr
	}
	uidOK := func(s string) (int, bool) {
		n := c05Atoi(s)
		return n, n == 0 || n == 1
	}
	switch {
	case f[0] == "login" && len(f) == 3:
		uid, ok := uidOK(f[1])
		if !ok {
			return "bad-op", nil, nil
		}
		pw := c05Password
		if f[2] != "1" {
			pw = "wrong password"
		} else {
			ev = append(ev, fmt.Sprintf("pw:%d", uid))
		}
		code, ck, _ := serve(st.loginHandler, w.form("/api/v0/login", "-", "username", c05Users[uid], "password", pw))
		return code, ck, ev
	case f[0] == "vipotp" && len(f) == 3:
		otp := 999999
		if uid, ok := uidOK(f[2]); ok {
			otp = c05VipOTP(uid)
		}
		code, ck, _ := serve(st.VIPAuthHandler, w.form(vipAuthPath, f[1], "OTP", strconv.Itoa(otp)))
		return code, ck, ev
	case (f[0] == "pushstart" || f[0] == "poll") && len(f) == 3:
		path, h := vipPushStartPath, st.vipPushStartHandler
		if f[0] == "poll" {
			path, h = vipPollCheckPath, st.VIPPollCheckHandler
		}
		req := w.form(path, f[1])
		if f[2] != "-" {
			req.AddCookie(&http.Cookie{Name: vipTransactionCookieName, Value: "vipcookie-" + f[2]})
		}
		code, ck, _ := serve(h, req)
		return code, ck, ev
	case f[0] == "approve" && len(f) == 2:
		k := c05Atoi(f[1])
		w.vip.mu.Lock()
		if k >= 0 && k < len(w.vip.owner) {
			w.vip.approved[k] = true
			ev = append(ev, fmt.Sprintf("vip:%d", c05Uid(w.vip.owner[k])))
		}
		w.vip.mu.Unlock()
		return "-", nil, ev
	case f[0] == "totp" && len(f) == 4:
		// totp <cookie> <owner|x> <virtual step relative to sequence start>
		w.clearTOTPRateLimit()
		code := "000000"
		if owner, ok := uidOK(f[2]); ok {
			rel, err := strconv.Atoi(f[3])
			if err != nil {
				return "bad-op", nil, nil
			}
			vstep := w.realStepNow() + w.off + int64(rel-w.vnow)
			code = w.totpCode(owner, vstep)
			d := rel - w.vnow
			if w.flags[owner]&c05FlagTOTP != 0 && d >= -1 && d <= 1 {
				ev = append(ev, fmt.Sprintf("totp:%d", owner))
			}
			code = w.avoidCollision(code, owner, d)
		}
		c, ck, _ := serve(st.TOTPAuthHandler, w.form(totpAuthPath, f[1], "OTP", code))
		return c, ck, ev
	case f[0] == "bootstrap" && len(f) == 3:
		val := "not-an-otp"
		if owner, ok := uidOK(f[2]); ok {
			val = c05BootValue(owner)
			if w.bootLife[owner] > 0 && w.vnow < w.bootLife[owner] {
				ev = append(ev, fmt.Sprintf("boot:%d", owner))
			}
		}
		c, ck, _ := serve(st.BootstrapOtpAuthHandler, w.form(bootstrapOtpAuthPath, f[1], "OTP", val))
		return c, ck, ev
	case (f[0] == "u2fbegin" || f[0] == "wabegin") && len(f) == 2:
		path, h := u2fSignRequestPath, st.u2fSignRequest
		if f[0] == "wabegin" {
			path, h = webAuthnAuthBeginPath, st.webauthnAuthLogin
		}
		c, ck, rr := serve(h, w.form(path, f[1]))
		if c == "200" {
			var ch string
			if f[0] == "u2fbegin" {
				var sr u2f.WebSignRequest
				json.Unmarshal(rr.Body.Bytes(), &sr)
				ch = sr.Challenge
			} else {
				var ca struct {
					PublicKey struct {
						Challenge string `json:"challenge"`
					} `json:"publicKey"`
				}
				json.Unmarshal(rr.Body.Bytes(), &ca)
				ch = ca.PublicKey.Challenge
			}
			raw, err := base64.RawURLEncoding.DecodeString(strings.TrimRight(ch, "="))
			if err != nil { // this webauthn version marshals the challenge as plain []byte (standard base64)
				raw, err = base64.StdEncoding.DecodeString(ch)
			}
			if err != nil || len(raw) == 0 {
				return "bad-challenge", nil, nil
			}
			w.chals = append(w.chals, raw)
		}
		return c, ck, ev
	case (f[0] == "u2ffinish" || f[0] == "wafinish") && len(f) == 5:
		// <op> <cookie> <token owner|x> <token kind u|w> <challenge index>
		var body []byte
		k := c05Atoi(f[4])
		owner, ok := uidOK(f[2])
		if f[2] == "x" {
			body = []byte(`{"garbage":true}`)
		} else if !ok || k < 0 || (f[3] != "u" && f[3] != "w") {
			return "bad-op", nil, nil
		} else {
			key := f[0] + "/" + f[2] + f[3] + "/" + f[4]
			if body = w.asserts[key]; body == nil {
				tk := w.u2fTok[owner]
				if f[3] == "w" {
					tk = w.waTok[owner]
				}
				// a challenge index nobody was ever handed: the token signs a value the server never issued
				chal := bytes.Repeat([]byte{0xee}, 32)
				if k < len(w.chals) {
					chal = w.chals[k]
				}
				if f[0] == "u2ffinish" {
					body = tk.u2fAssertion(chal)
				} else {
					body = tk.waAssertion(chal, st.webAuthn.Config.RPID, f[3] == "u")
				}
				if k < len(w.chals) { // replays of an assertion over a real challenge are byte-identical
					w.asserts[key] = body
				}
				w.assertCt[key] = tk.counter
			}
			bit := c05FlagU2F
			if f[3] == "w" {
				bit = c05FlagWA
			}
			if w.flags[owner]&bit != 0 {
				ev = append(ev, fmt.Sprintf("hw:%d", owner))
			}
		}
		path, h := u2fSignResponsePath, st.u2fSignResponse
		if f[0] == "wafinish" {
			path, h = webAuthnAuthFinishPath, st.webauthnAuthFinish
		}
		execs0 := atomic.LoadInt32(&c05SaveExecs)
		c, ck, _ := serve(h, w.body(path, f[1], body))
		if c == "200" && f[0] == "wafinish" && f[3] == "u" && ok {
			// webauthnAuthFinish saves the profile (new signature counter) in a goroutine: wait until that
			// write reached the driver (done or refused), or a later clock shift of the stored profile
			// could be overwritten by the stale copy
			for i := 0; i < 400 && atomic.LoadInt32(&c05SaveExecs) == execs0; i++ {
				time.Sleep(time.Millisecond)
			}
		}
		return c, ck, ev
	case f[0] == "showtoken" && len(f) == 3:
		// showtoken <cookie> <lifetime in ticks>; 0 = a token that is already expired
		life := c05Atoi(f[2])
		if life < 0 {
			return "bad-op", nil, nil
		}
		old := st.Config.Base.WebauthTokenForCliLifetime
		st.Config.Base.WebauthTokenForCliLifetime = time.Duration(life) * 30 * time.Second
		if life == 0 {
			st.Config.Base.WebauthTokenForCliLifetime = -time.Minute
		}
		c, ck, rr := serve(st.ShowAuthTokenHandler, w.form(paths.ShowAuthToken, f[1]))
		st.Config.Base.WebauthTokenForCliLifetime = old
		if c == "200" {
			m := c05reToken.FindStringSubmatch(rr.Body.String())
			if m == nil {
				return "no-token-in-page", nil, nil
			}
			info, err := st.getAuthInfoFromJWT(m[1], "keymaster_webauth_for_cli_identity")
			if err != nil {
				return "undecodable-token", nil, nil
			}
			w.toks[fmt.Sprintf("%d:%d", c05Uid(info.Username), w.vnow+life)] = m[1]
		}
		return c, ck, ev
	case f[0] == "senddoc" && len(f) == 3:
		tok := "not.a.token"
		if tk, ok := w.toks[f[2]]; ok {
			tok = tk
			if info, err := st.getAuthInfoFromJWT(tok, "keymaster_webauth_for_cli_identity"); err == nil && time.Until(info.ExpiresAt) >= 0 {
				ev = append(ev, fmt.Sprintf("cli:%d", c05Uid(info.Username)))
			}
		}
		c, ck, _ := serve(st.SendAuthDocumentHandler, w.form(paths.SendAuthDocument, f[1], "port", "12345", "token", tok))
		return c, ck, ev
	case f[0] == "totpenrol" && len(f) == 2:
		// the user enrols a further TOTP device: GenerateNew, then ValidateNew with that device's code
		c, ck, rr := serve(st.GenerateNewTOTP, w.form(totpGeneratNewPath, f[1]))
		if c != "200" {
			return c, ck, ev
		}
		var page struct{ TOTPSecret string }
		if json.Unmarshal(rr.Body.Bytes(), &page) != nil || page.TOTPSecret == "" {
			return "no-secret-in-page", nil, nil
		}
		code, err := totp.GenerateCode(page.TOTPSecret, time.Now())
		if err != nil {
			return "bad-secret", nil, nil
		}
		c, ck2, _ := serve(st.validateNewTOTP, w.form(totpValidateNewPath, f[1], "OTP", code))
		return c, append(ck, ck2...), ev
	case (f[0] == "totprename" || f[0] == "hwrename") && len(f) == 3:
		uid, ok := uidOK(f[2])
		if !ok {
			return "bad-op", nil, nil
		}
		path, h := totpTokenManagementPath, st.totpTokenManagerHandler
		if f[0] == "hwrename" {
			path, h = u2fTokenManagementPath, st.u2fTokenManagerHandler
		}
		c, ck, _ := serve(h, w.form(path, f[1], "username", c05Users[uid], "index", "1", "action", "Update", "name", "renamed token"))
		return c, ck, ev
	case f[0] == "logout" && len(f) == 2:
		c, ck, _ := serve(st.logoutHandler, w.form(logoutPath, f[1]))
		return c, ck, ev
	case f[0] == "oktaotp" && len(f) == 3:
		otp := 999999
		if uid, ok := uidOK(f[2]); ok {
			otp = c05OktaOTP(uid)
		}
		c, ck, _ := serve(st.Okta2FAuthHandler, w.form(okta2FAauthPath, f[1], "OTP", strconv.Itoa(otp)))
		return c, ck, ev
	case (f[0] == "oktapushstart" || f[0] == "oktapoll") && len(f) == 2:
		path, h := oktaPushStartPath, st.oktaPushStartHandler
		if f[0] == "oktapoll" {
			path, h = oktaPollCheckPath, st.oktaPollCheckHandler
		}
		c, ck, _ := serve(h, w.form(path, f[1]))
		return c, ck, ev
	case f[0] == "oktaapprove" && len(f) == 2:
		uid, ok := uidOK(f[1])
		if !ok {
			return "bad-op", nil, nil
		}
		w.okta.mu.Lock()
		if w.okta.pushed[uid] {
			w.okta.approved[uid] = true
			ev = append(ev, fmt.Sprintf("okta:%d", uid))
		}
		w.okta.mu.Unlock()
		return "-", nil, ev
	case f[0] == "tick" && len(f) == 1:
		w.tick()
		return "-", nil, nil
	case f[0] == "sweep" && len(f) == 1:
		w.sweep()
		return "-", nil, nil
	case f[0] == "fault" && len(f) == 3:
		// fault <save 0|1> <load 0|1>: the primary profile store refuses writes / reads from now on
		atomic.StoreInt32(&c05FailSave, int32(c05Atoi(f[1])&1))
		atomic.StoreInt32(&c05FailLoad, int32(c05Atoi(f[2])&1))
		return "-", nil, nil
	}
	return "bad-op", nil, nil
}

// TestVerifC05 interprets the op file. `reset <flags0> <bootLife0> <flags1> <bootLife1> <htp|okta>`
// starts a new history. Extra op (direct call, no handler): `totpdirect <uid> <owner> <rel step> <dt>`
// calls validateUserTOTP(user, code, now+dt*30s) -- the replay-in-the-next-step probe that needs no waiting.
func TestVerifC05(t *testing.T) {
	io := vfOpen(t)
	defer io.close()
	w, cleanup := c05Setup(t)
	defer cleanup()
	started := false
	for _, line := range io.ops {
		f := strings.Fields(line)
		if len(f) == 0 || strings.HasPrefix(line, "#") {
			io.emit("%s", line)
			continue
		}
		if f[0] == "reset" {
			if len(f) != 6 {
				io.emit("bad-op")
				continue
			}
			// never let a real 30 s boundary fall inside a history
			if rem := 30 - time.Now().Unix()%30; rem <= 4 {
				time.Sleep(time.Duration(rem)*time.Second + 50*time.Millisecond)
			}
			w.reset(c05Atoi(f[1]), c05Atoi(f[2]), c05Atoi(f[3]), c05Atoi(f[4]), strings.HasPrefix(f[5], "okta"), strings.HasSuffix(f[5], "@"))
			started = true
			io.emit("- - -")
			continue
		}
		if !started {
			io.emit("bad-op")
			continue
		}
		if f[0] == "totpdirect" && len(f) == 5 {
			uid, owner, rel, dt := c05Atoi(f[1]), c05Atoi(f[2]), c05Atoi(f[3]), c05Atoi(f[4])
			if uid < 0 || uid > 1 || owner < 0 || owner > 1 {
				io.emit("bad-op")
				continue
			}
			w.clearTOTPRateLimit()
			code := w.totpCode(owner, w.realStepNow()+w.off+int64(rel-w.vnow))
			v, _ := strconv.Atoi(code)
			ok, err := w.state.validateUserTOTP(c05Users[uid], v, time.Now().Add(time.Duration(dt)*30*time.Second))
			io.emit("%s - -", map[bool]string{true: "accept", false: "reject"}[ok && err == nil])
			continue
		}
		if f[0] == "wait" && len(f) == 1 {
			// thorough tier only: really wait for the next 30 s step (virtual clock follows)
			rem := 30 - time.Now().Unix()%30
			time.Sleep(time.Duration(rem)*time.Second + 300*time.Millisecond)
			w.vnow++
			io.emit("- - -")
			continue
		}
		code, ck, ev := w.exec(f)
		io.emit("%s %s %s", code, c05Join(ck), c05Join(ev))
	}
}
