package main

import (
	"bytes"
	"crypto"
	"crypto/ecdsa"
	"crypto/elliptic"
	"crypto/rand"
	"crypto/rsa"
	"crypto/tls"
	"crypto/x509"
	"encoding/json"
	"encoding/pem"
	"fmt"
	"net/http"
	"net/http/httptest"
	neturl "net/url"
	"regexp"
	"strings"
	"sync"
	"testing"

	"github.com/Cloud-Foundations/golib/pkg/log/testlogger"
	"github.com/go-jose/go-jose/v4"
	"golang.org/x/crypto/openpgp"
	"golang.org/x/crypto/openpgp/armor"
	"golang.org/x/crypto/ssh"
	"golang.org/x/time/rate"
)

var vfJWTRe = regexp.MustCompile(`eyJ[A-Za-z0-9_-]{8,}\.[A-Za-z0-9_-]{8,}\.[A-Za-z0-9_-]{8,}`)

// vfSignedArtefacts lists what in a response looks like signed material.
func vfSignedArtefacts(rr *httptest.ResponseRecorder) []string {
	var out []string
	for _, c := range rr.Result().Cookies() {
		if c.Value != "" && (c.Name == authCookieName || vfJWTRe.MatchString(c.Value)) {
			out = append(out, "cookie:"+c.Name)
		}
	}
	b := rr.Body.String()
	if strings.Contains(b, "BEGIN CERTIFICATE") {
		out = append(out, "x509")
	}
	if strings.Contains(b, "-cert-v01@openssh.com") {
		out = append(out, "sshcert")
	}
	if vfJWTRe.MatchString(b) {
		out = append(out, "jwt-in-body")
	}
	if loc := rr.Header().Get("Location"); vfJWTRe.MatchString(loc) {
		out = append(out, "jwt-in-location")
	}
	return out
}

func vfSealDigest(status int, state *RuntimeState) string {
	state.Mutex.Lock()
	defer state.Mutex.Unlock()
	return fmt.Sprintf("%d %s %s %d %d %d", status, vfBool(state.Signer != nil), vfBool(state.Ed25519Signer != nil),
		len(state.KeymasterPublicKeys), len(state.caCertDer), len(state.SignerIsReady))
}

// the keys the two CA files hold (learnt once by unsealing a scratch state) and a foreign key
var vfC09SignerPub, vfC09EdPub, vfC09ForeignPub crypto.PublicKey

func vfHasKey(keys []crypto.PublicKey, k crypto.PublicKey) bool {
	fp, err := getKeyFingerprint(k)
	if err != nil {
		return false
	}
	for _, x := range keys {
		if f, err := getKeyFingerprint(x); err == nil && f == fp {
			return true
		}
	}
	return false
}

// vfServedKeys: is k in what /public/sshca and the JWKS document serve?
func vfServedKeys(state *RuntimeState, k crypto.PublicKey) (sshca, jwks bool) {
	rr, p := vfServe(state.publicPathHandler, httptest.NewRequest("GET", publicPath+"sshca", nil))
	if p == nil && rr.Code == 200 {
		if sp, err := ssh.NewPublicKey(k); err == nil {
			sshca = strings.Contains(rr.Body.String(), strings.TrimSpace(string(ssh.MarshalAuthorizedKey(sp))))
		}
	}
	rr, p = vfServe(state.idpOpenIDCJWKSHandler, httptest.NewRequest("GET", idpOpenIDCJWKSPath, nil))
	if p == nil && rr.Code == 200 {
		var set jose.JSONWebKeySet
		if json.Unmarshal(rr.Body.Bytes(), &set) == nil {
			if fp, err := getKeyFingerprint(k); err == nil {
				for _, jk := range set.Key(fp) {
					if pk, ok := jk.Key.(interface{ Equal(crypto.PublicKey) bool }); ok && pk.Equal(k) {
						jwks = true
					}
				}
			}
		}
	}
	return
}

// vfServedX509CA: does /public/x509ca carry a CA certificate over k?
func vfServedX509CA(state *RuntimeState, k crypto.PublicKey) bool {
	rr, p := vfServe(state.publicPathHandler, httptest.NewRequest("GET", publicPath+"x509ca", nil))
	if p != nil || rr.Code != 200 {
		return false
	}
	rest := rr.Body.Bytes()
	for {
		var blk *pem.Block
		blk, rest = pem.Decode(rest)
		if blk == nil {
			return false
		}
		if c, err := x509.ParseCertificate(blk.Bytes); err == nil && c.IsCA {
			if pk, ok := c.PublicKey.(interface{ Equal(crypto.PublicKey) bool }); ok && pk.Equal(k) {
				return true
			}
		}
	}
}

// vfSealDigest2 = vfSealDigest + `in=<signer key published?><ed key published?>` (compared with the
// model) + ` served=<sshca, jwks and x509ca carry every key that signs: 1|0|->` (judged)
func vfSealDigest2(status int, state *RuntimeState) string {
	d := vfSealDigest(status, state)
	state.Mutex.Lock()
	keys := append([]crypto.PublicKey{}, state.KeymasterPublicKeys...)
	signer, ed := state.Signer, state.Ed25519Signer
	state.Mutex.Unlock()
	in := vfBool(vfHasKey(keys, vfC09SignerPub)) + vfBool(vfHasKey(keys, vfC09EdPub))
	served := "-"
	if signer != nil {
		served = "1"
		for _, sg := range []crypto.Signer{signer, ed} {
			if sg == nil {
				continue
			}
			a, b := vfServedKeys(state, sg.Public())
			if !a || !b || !vfServedX509CA(state, sg.Public()) {
				served = "0"
			}
		}
	}
	return d + " in=" + in + " served=" + served
}

// ---- round 5: the contents of the two CA key files as a fixture family

// vfC09Armor: what `gpg --symmetric --armor` writes (the format tryLoadAndVerifySigners accepts as "encrypted")
func vfC09Armor(plaintext []byte, passphrase string) ([]byte, error) {
	var out bytes.Buffer
	aw, err := armor.Encode(&out, "PGP MESSAGE", nil)
	if err != nil {
		return nil, err
	}
	pw, err := openpgp.SymmetricallyEncrypt(aw, []byte(passphrase), nil, nil)
	if err != nil {
		return nil, err
	}
	if _, err := pw.Write(plaintext); err != nil {
		return nil, err
	}
	if err := pw.Close(); err != nil {
		return nil, err
	}
	if err := aw.Close(); err != nil {
		return nil, err
	}
	return out.Bytes(), nil
}

var vfC09FileCache = map[string][]byte{}

// vfC09KeyFile: the armored file for one slot ("main" / "ed") and one content letter:
// g the repo's good test key for that slot · e / c / r an Ed25519 / ECDSA / RSA private key (PEM) ·
// x a PEM block that is no private key · n no PEM at all · z empty · o the good key under another passphrase.
// Everything but `o` is encrypted under "password".
func vfC09KeyFile(slot, letter string, someCert []byte) ([]byte, bool) {
	if b, ok := vfC09FileCache[slot+letter]; ok {
		return b, true
	}
	good := encryptedTestSignerPrivateKey
	if slot == "ed" {
		good = encryptedTestEd25519PrivateKey
	}
	plainOf := func(armored string) []byte {
		b, err := pgpDecryptFileData([]byte(armored), []byte("password"))
		if err != nil {
			return nil
		}
		return b
	}
	var plain []byte
	pass := "password"
	switch letter {
	case "g":
		vfC09FileCache[slot+letter] = []byte(good)
		return []byte(good), true
	case "e":
		plain = plainOf(encryptedTestEd25519PrivateKey)
	case "r":
		plain = plainOf(encryptedTestSignerPrivateKey)
	case "c":
		k, err := ecdsa.GenerateKey(elliptic.P256(), rand.Reader)
		if err != nil {
			return nil, false
		}
		der, err := x509.MarshalECPrivateKey(k)
		if err != nil {
			return nil, false
		}
		plain = pem.EncodeToMemory(&pem.Block{Type: "EC PRIVATE KEY", Bytes: der})
	case "x":
		plain = pem.EncodeToMemory(&pem.Block{Type: "CERTIFICATE", Bytes: someCert})
	case "n":
		plain = []byte("this file holds no key\n")
	case "z":
		plain = []byte{}
	case "o":
		plain, pass = plainOf(good), "another passphrase"
	default:
		return nil, false
	}
	if plain == nil {
		return nil, false
	}
	b, err := vfC09Armor(plain, pass)
	if err != nil {
		return nil, false
	}
	vfC09FileCache[slot+letter] = b
	return b, true
}

// vfSealDigest3 = vfSealDigest2 + ` ca=<CA certificate over the signer key loaded><over the Ed25519 key>`
// + ` obs=<readyz>,<a route that tests the seal first: 500|pass>` (all compared with the model) +
// ` keys=<Signer: s the main file's key, ? another, - nil><Ed25519Signer: e|?|->` (for the judge)
func vfSealDigest3(status int, state *RuntimeState) string {
	d := vfSealDigest2(status, state)
	state.Mutex.Lock()
	ders := append([][]byte{}, state.caCertDer...)
	signer, ed := state.Signer, state.Ed25519Signer
	state.Mutex.Unlock()
	caHas := func(k crypto.PublicKey) bool {
		for _, der := range ders {
			if c, err := x509.ParseCertificate(der); err == nil && c.IsCA {
				if pk, ok := c.PublicKey.(interface{ Equal(crypto.PublicKey) bool }); ok && pk.Equal(k) {
					return true
				}
			}
		}
		return false
	}
	letter := func(sg crypto.Signer, known crypto.PublicKey, l string) string {
		if sg == nil {
			return "-"
		}
		if pk, ok := sg.Public().(interface{ Equal(crypto.PublicKey) bool }); ok && pk.Equal(known) {
			return l
		}
		return "?"
	}
	r1, _ := vfServe(state.readyzHandler, httptest.NewRequest("GET", readyzPath, nil))
	creq, _ := createKeyBodyRequest("POST", "/certgen/username?type=x509", testUserPEMPublicKey, "")
	r2, p2 := vfServe(state.certGenHandler, creq)
	g := "pass"
	if p2 == nil && r2.Code == 500 {
		g = "500"
	}
	return fmt.Sprintf("%s ca=%s%s obs=%d,%s keys=%s%s", d, vfBool(caHas(vfC09SignerPub)), vfBool(caHas(vfC09EdPub)),
		r1.Code, g, letter(signer, vfC09SignerPub, "s"), letter(ed, vfC09EdPub, "e"))
}

func vfInjectReq(kind string, chain []*x509.Certificate) (*http.Request, bool) {
	form := neturl.Values{}
	req := httptest.NewRequest("POST", secretInjectorPath, nil)
	switch {
	case kind == "notls":
		req.TLS = nil
		form.Set("ssh_ca_password", "password")
	case kind == "nochain":
		req.TLS = &tls.ConnectionState{}
		form.Set("ssh_ca_password", "password")
	case kind == "noform":
		req.TLS = &tls.ConnectionState{VerifiedChains: [][]*x509.Certificate{chain}}
	case strings.HasPrefix(kind, "pass:"):
		p, ok := vfUnhex(kind[5:])
		if !ok {
			return nil, false
		}
		req.TLS = &tls.ConnectionState{VerifiedChains: [][]*x509.Certificate{chain}}
		form.Set("ssh_ca_password", p)
	default:
		return nil, false
	}
	req = httptest.NewRequest("POST", secretInjectorPath, strings.NewReader(form.Encode()))
	req.Header.Set("Content-Type", "application/x-www-form-urlencoded")
	switch kind {
	case "notls":
	case "nochain":
		req.TLS = &tls.ConnectionState{}
	default:
		req.TLS = &tls.ConnectionState{VerifiedChains: [][]*x509.Certificate{chain}}
	}
	return req, true
}

// TestVerifC09:
//   sealed <path> <webui> <7 shape tokens> ↦ `<status|panic> signed=<list|->`   (every route, Signer == nil)
//   reset <ed> | inj <kind> | req          ↦ seal state digest (compared with KM.Seal)
//   race <n>                               ↦ `<#200 among n concurrent correct injections> <digest>`
func TestVerifC09(t *testing.T) {
	vio := vfOpen(t)
	defer vio.close()
	full, cleanup := vfNewState(t)
	defer cleanup()
	shapes := vfNewShapes(t, full)
	fullSigner := full.Signer
	var st *RuntimeState
	newSealed := func(ed bool) *RuntimeState {
		s := &RuntimeState{logger: testlogger.New(t), passwordAttemptGlobalLimiter: rate.NewLimiter(1e9, 1000)}
		s.SSHCARawFileContent = []byte(encryptedTestSignerPrivateKey)
		if ed {
			s.Ed25519CAFileContent = []byte(encryptedTestEd25519PrivateKey)
		}
		s.SignerIsReady = make(chan bool, 64)
		return s
	}
	{ // learn the keys inside the CA files
		s0 := newSealed(true)
		if err := s0.unsealCA([]byte("password"), "verif"); err != nil {
			t.Fatal(err)
		}
		vfC09SignerPub, vfC09EdPub = s0.Signer.Public(), s0.Ed25519Signer.Public()
		fk, err := rsa.GenerateKey(rand.Reader, 2048)
		if err != nil {
			t.Fatal(err)
		}
		vfC09ForeignPub = fk.Public()
	}
	chain := []*x509.Certificate{shapes.certs["km"], shapes.kmCA}
	for _, line := range vio.ops {
		f := strings.Fields(line)
		if len(f) == 0 {
			vio.emit("bad-op")
			continue
		}
		switch f[0] {
		case "sealed":
			if len(f) != 10 {
				vio.emit("bad-op")
				continue
			}
			full.Mutex.Lock()
			full.Signer = nil
			full.Mutex.Unlock()
			out := vfProbeSealed(t, full, shapes, f[1], f[2], f[3:])
			full.Mutex.Lock()
			full.Signer = fullSigner
			full.Mutex.Unlock()
			vio.emit("%s", out)
		case "reset":
			st = newSealed(len(f) > 1 && f[1] == "1")
			vio.emit("%s", vfSealDigest(0, st))
		case "reset2": // reset2 <ed> <preloaded keymaster_public_keys: letters of s(igner) e(d25519) f(oreign), or ->
			if len(f) != 3 {
				vio.emit("bad-op")
				continue
			}
			st = newSealed(f[1] == "1")
			for _, ch := range f[2] {
				switch ch {
				case 's':
					st.KeymasterPublicKeys = append(st.KeymasterPublicKeys, vfC09SignerPub)
				case 'e':
					st.KeymasterPublicKeys = append(st.KeymasterPublicKeys, vfC09EdPub)
				case 'f':
					st.KeymasterPublicKeys = append(st.KeymasterPublicKeys, vfC09ForeignPub)
				}
			}
			vio.emit("%s", vfSealDigest2(0, st))
		case "inj2":
			req, ok := vfInjectReq(f[1], chain)
			if st == nil || !ok {
				vio.emit("bad-op")
				continue
			}
			rr, p := vfServe(st.secretInjectorHandler, req)
			if p != nil {
				vio.emit("panic")
				continue
			}
			vio.emit("%s", vfSealDigest2(rr.Code, st))
		case "reset3": // reset3 <main file letter> <ed file letter|-> <preloaded keymaster_public_keys>
			if len(f) != 4 {
				vio.emit("bad-op")
				continue
			}
			st = newSealed(false)
			okf := true
			st.SSHCARawFileContent, okf = vfC09KeyFile("main", f[1], shapes.kmCA.Raw)
			if okf && f[2] != "-" {
				st.Ed25519CAFileContent, okf = vfC09KeyFile("ed", f[2], shapes.kmCA.Raw)
			}
			if !okf {
				st = nil
				vio.emit("bad-op")
				continue
			}
			for _, ch := range f[3] {
				switch ch {
				case 's':
					st.KeymasterPublicKeys = append(st.KeymasterPublicKeys, vfC09SignerPub)
				case 'e':
					st.KeymasterPublicKeys = append(st.KeymasterPublicKeys, vfC09EdPub)
				case 'f':
					st.KeymasterPublicKeys = append(st.KeymasterPublicKeys, vfC09ForeignPub)
				}
			}
			vio.emit("%s", vfSealDigest3(0, st))
		case "inj3":
			req, ok := vfInjectReq(f[1], chain)
			if st == nil || !ok {
				vio.emit("bad-op")
				continue
			}
			rr, p := vfServe(st.secretInjectorHandler, req)
			if p != nil {
				vio.emit("panic")
				continue
			}
			vio.emit("%s", vfSealDigest3(rr.Code, st))
		case "inj":
			req, ok := vfInjectReq(f[1], chain)
			if st == nil || !ok {
				vio.emit("bad-op")
				continue
			}
			rr, p := vfServe(st.secretInjectorHandler, req)
			if p != nil {
				vio.emit("panic")
				continue
			}
			vio.emit("%s", vfSealDigest(rr.Code, st))
		case "req":
			if st == nil {
				vio.emit("bad-op")
				continue
			}
			r1, _ := vfServe(st.readyzHandler, httptest.NewRequest("GET", readyzPath, nil))
			creq, _ := createKeyBodyRequest("POST", "/certgen/username?type=x509", testUserPEMPublicKey, "")
			r2, _ := vfServe(st.certGenHandler, creq)
			g := "pass"
			if r2.Code == 500 {
				g = "500"
			}
			vio.emit("%d %s", r1.Code, g)
		case "race":
			n := 8
			fmt.Sscan(f[1], &n)
			st = newSealed(true)
			var wg sync.WaitGroup
			var mu sync.Mutex
			oks := 0
			bad := 0
			for i := 0; i < n; i++ {
				wg.Add(2)
				go func() {
					defer wg.Done()
					req, _ := vfInjectReq("pass:70617373776f7264", chain)
					rr, p := vfServe(st.secretInjectorHandler, req)
					mu.Lock()
					if p == nil && rr.Code == 200 {
						oks++
					}
					mu.Unlock()
				}()
				go func() {
					defer wg.Done()
					creq, _ := createKeyBodyRequest("POST", "/certgen/username?type=x509", testUserPEMPublicKey, "")
					rr, p := vfServe(st.certGenHandler, creq)
					// sealed -> 500; unsealed -> 401 (no credential); anything signed or a panic is wrong
					mu.Lock()
					if p != nil || len(vfSignedArtefacts(rr)) > 0 || (rr.Code != 500 && rr.Code != 401) {
						bad++
					}
					mu.Unlock()
				}()
			}
			wg.Wait()
			vio.emit("%d %d %s", oks, bad, vfSealDigest(0, st))
		default:
			vio.emit("bad-op")
		}
	}
}

func vfProbeSealed(t *testing.T, state *RuntimeState, shapes *vfShapes, path, webui string, tok []string) string {
	var route *vfRoute
	for _, r := range vfRouteTable(state) {
		if r.path == path {
			rr := r
			route = &rr
			break
		}
	}
	if route == nil {
		return "no-such-route"
	}
	if webui == "-" {
		state.Config.Base.AllowedAuthBackendsForWebUI = nil
	} else {
		state.Config.Base.AllowedAuthBackendsForWebUI = strings.Split(webui, ",")
	}
	state.Config.Base.AllowedAuthBackendsForCerts = []string{"password"}
	url := path
	if strings.HasSuffix(path, "/") && path != "/" && !strings.HasPrefix(path, "/static") && path != "/custom_static/" {
		if path == "/public/" {
			url += "x509ca"
		} else {
			url += "alice"
		}
	}
	form := neturl.Values{}
	for k, v := range map[string]string{"username": "alice", "index": "1", "action": "Delete", "OTP": "123456",
		"login_destination": "/", "identity": "role1", "requestor_netblock": "10.0.0.0/8", "target_netblock": "10.0.0.0/8",
		"port": "1234", "token": "x", "pubkey": shapes.b64Pub(), "password": "password", "ssh_ca_password": "nope",
		"grant_type": "authorization_code", "code": "x", "client_id": "x", "state": "x"} {
		form.Set(k, v)
	}
	var req *http.Request
	if tok[0] == "GET" {
		req = httptest.NewRequest("GET", url+"?"+form.Encode(), nil)
	} else {
		req = httptest.NewRequest(tok[0], url, strings.NewReader(form.Encode()))
		req.Header.Set("Content-Type", "application/x-www-form-urlencoded")
	}
	req, ok := shapes.decorate(tok, req)
	if !ok {
		return "bad-op"
	}
	rr, p := vfServe(route.h, req)
	art := vfSignedArtefacts(rr)
	a := "-"
	if len(art) > 0 {
		a = strings.Join(art, ",")
	}
	if p != nil {
		return "panic signed=" + a
	}
	return fmt.Sprintf("%d signed=%s", rr.Code, a)
}
