package main

// Request-shape fixtures shared by the C01 / C06 / C09 harnesses: real certificates
// (keymaster user cert, IP-restricted cert, foreign CA), real and forged JWT cookies,
// basic-auth, Origin headers — built from the same tokens the Lean driver parses.

import (
	"crypto"
	"crypto/rand"
	"crypto/rsa"
	"crypto/tls"
	"crypto/x509"
	"encoding/base64"
	"errors"
	"fmt"
	"net"
	"net/http"
	"net/http/httptest"
	"strconv"
	"strings"
	"testing"
	"time"

	"github.com/Cloud-Foundations/golib/pkg/auth/userinfo"
	"github.com/Cloud-Foundations/keymaster/lib/certgen"
	"github.com/Cloud-Foundations/keymaster/lib/simplestorage"
	"github.com/go-jose/go-jose/v4"
	"github.com/go-jose/go-jose/v4/jwt"
	"golang.org/x/time/rate"
)

var _ userinfo.UserInfo // keep import set stable across edits

type vfErrPw struct{}

func (vfErrPw) PasswordAuthenticate(string, []byte) (bool, error) {
	return false, errors.New("backend down")
}
func (vfErrPw) UpdateStorage(simplestorage.SimpleStore) error { return nil }

type vfShapes struct {
	t           *testing.T
	state       *RuntimeState
	userPub     interface{}
	leafFP      string
	kmCA        *x509.Certificate
	roleCA      *x509.Certificate
	foreignCA   *x509.Certificate
	foreignKey  *rsa.PrivateKey
	certs       map[string]*x509.Certificate
	realPw      interface{}
	signer      crypto.Signer
	base        int64
	lastSoonExp int64
}

// lifetime (wall-clock seconds, rounded up) of a cookie whose exp token is `soon`
const vfSoonSecs = 2

func vfNewShapes(t *testing.T, state *RuntimeState) *vfShapes {
	s := &vfShapes{t: t, state: state, certs: map[string]*x509.Certificate{}, signer: state.Signer}
	var err error
	s.userPub, err = getPubKeyFromPem(testUserPEMPublicKey)
	if err != nil {
		t.Fatal(err)
	}
	s.leafFP, err = getKeyFingerprint(s.userPub)
	if err != nil {
		t.Fatal(err)
	}
	s.kmCA, err = x509.ParseCertificate(state.caCertDer[0])
	if err != nil {
		t.Fatal(err)
	}
	s.roleCA, err = x509.ParseCertificate(state.selfRoleCaCertDer)
	if err != nil {
		t.Fatal(err)
	}
	s.foreignKey, err = rsa.GenerateKey(rand.Reader, 2048)
	if err != nil {
		t.Fatal(err)
	}
	fder, err := certgen.GenSelfSignedCACert("foreign", "foreign", s.foreignKey)
	if err != nil {
		t.Fatal(err)
	}
	s.foreignCA, _ = x509.ParseCertificate(fder)
	mk := func(der []byte, err error) *x509.Certificate {
		if err != nil {
			t.Fatal(err)
		}
		c, err := x509.ParseCertificate(der)
		if err != nil {
			t.Fatal(err)
		}
		return c
	}
	s.certs["km"] = mk(certgen.GenUserX509Cert("alice", s.userPub, s.kmCA, state.Signer, nil,
		time.Hour, nil, nil, nil, logger))
	s.certs["foreign"] = mk(certgen.GenUserX509Cert("alice", s.userPub, s.foreignCA, s.foreignKey, nil,
		time.Hour, nil, nil, nil, logger))
	_, block, _ := net.ParseCIDR("10.0.0.0/8")
	s.certs["ip"] = mk(certgen.GenIPRestrictedX509Cert("role1", s.userPub, s.roleCA, state.Signer,
		[]net.IPNet{*block}, time.Hour, nil, nil))
	s.certs["ipnoauto"] = mk(certgen.GenIPRestrictedX509Cert("mallory", s.userPub, s.roleCA, state.Signer,
		[]net.IPNet{*block}, time.Hour, nil, nil))
	state.Config.Base.AutomationUsers = []string{"role1"}
	s.realPw = state.passwordChecker
	return s
}

// mintJWT signs arbitrary session-shaped claims with the given key (RS256).
func vfMintJWT(key crypto.Signer, claims interface{}) (string, error) {
	opts := (&jose.SignerOptions{}).WithType("JWT")
	signer, err := jose.NewSigner(jose.SigningKey{Algorithm: jose.RS256, Key: key}, opts)
	if err != nil {
		return "", err
	}
	return jwt.Signed(signer).Claims(claims).Serialize()
}

// apply decorates req according to the seven shape tokens
//
//	method origin host tls cookie basic limiter
//
// and configures the state (deny list, limiter, password backend). Returns false on a bad token.
func (s *vfShapes) build(f []string, path string) (*http.Request, bool) {
	if len(f) != 7 {
		return nil, false
	}
	if f[0] != "GET" && f[0] != "POST" && f[0] != "PUT" {
		return nil, false
	}
	return s.decorate(f, httptest.NewRequest(f[0], path, nil))
}

// decorate applies the shape tokens to an existing request (whose method must already be f[0]).
func (s *vfShapes) decorate(f []string, req *http.Request) (*http.Request, bool) {
	if len(f) != 7 {
		return nil, false
	}
	origin, host, tlsTok, cookieTok, basicTok, lim := f[1], f[2], f[3], f[4], f[5], f[6]
	req.RemoteAddr = "192.168.1.1:1234"
	if req.Host == "" {
		req.Host = "example.com"
	}
	switch origin {
	case "none":
	case "bad":
		req.Header.Set("Origin", "http://[::1")
	case "same":
		req.Header.Set("Origin", "https://example.com/some/page")
	case "other":
		req.Header.Set("Origin", "https://evil.example/")
	default:
		return nil, false
	}
	if host == "0" {
		req.Host = ""
	} else if host != "1" {
		return nil, false
	}
	s.state.Config.DenyTrustData.KeyDenyFPsshSha256 = nil
	switch {
	case tlsTok == "none":
		req.TLS = nil
	case tlsTok == "nochain":
		req.TLS = &tls.ConnectionState{}
	default:
		p := strings.Split(tlsTok, ":")
		if len(p) < 2 {
			return nil, false
		}
		var leaf *x509.Certificate
		ca := s.kmCA
		switch p[0] {
		case "km":
			leaf = s.certs["km"]
		case "foreign":
			leaf, ca = s.certs["foreign"], s.foreignCA
		case "ipin":
			leaf, ca = s.certs["ip"], s.roleCA
			req.RemoteAddr = "10.1.2.3:4321"
		case "ipout":
			leaf, ca = s.certs["ip"], s.roleCA
		case "iperr":
			leaf, ca = s.certs["ip"], s.roleCA
			req.RemoteAddr = "garbage-without-port"
		case "ipnoauto":
			leaf, ca = s.certs["ipnoauto"], s.roleCA
			req.RemoteAddr = "10.1.2.3:4321"
		case "ipxff", "ipxri":
			// outside the netblocks: the TCP peer is the loopback address; only a client-supplied
			// header names an address inside them
			leaf, ca = s.certs["ip"], s.roleCA
			req.RemoteAddr = "127.0.0.1:4321"
			if p[0] == "ipxff" {
				req.Header.Set("X-Forwarded-For", "10.1.2.3")
			} else {
				req.Header.Set("X-Real-Ip", "10.1.2.3")
			}
		case "ipinhdr":
			// inside the netblocks, with a header naming an address outside them
			leaf, ca = s.certs["ip"], s.roleCA
			req.RemoteAddr = "10.1.2.3:4321"
			req.Header.Set("X-Forwarded-For", "192.168.1.1")
			req.Header.Set("X-Real-Ip", "192.168.1.1")
		default:
			return nil, false
		}
		var chain []*x509.Certificate
		switch p[1] {
		case "1":
			chain = []*x509.Certificate{leaf}
		case "2":
			chain = []*x509.Certificate{leaf, ca}
		case "2x":
			chain = []*x509.Certificate{leaf, s.foreignCA}
		default:
			return nil, false
		}
		if len(p) == 3 {
			if p[2] != "denied" {
				return nil, false
			}
			s.state.Config.DenyTrustData.KeyDenyFPsshSha256 = []string{s.leafFP}
		}
		req.TLS = &tls.ConnectionState{VerifiedChains: [][]*x509.Certificate{chain},
			PeerCertificates: []*x509.Certificate{leaf}}
	}
	if cookieTok != "none" {
		p := strings.Split(cookieTok, ":")
		if len(p) != 8 {
			return nil, false
		}
		issuer := s.state.idpGetIssuer()
		// one base time per fixture: two cookies built from the same tokens carry byte-identical claims, whoever
		// signs them (a verifier that remembers claims instead of signatures must not be fooled by that)
		if s.base == 0 {
			s.base = time.Now().Unix()
		}
		now := s.base
		c := authInfoJWT{Issuer: issuer, Subject: p[7], Audience: []string{issuer}, IssuedAt: now - 100}
		switch p[0] {
		case "auth":
			c.TokenType = "keymaster_auth"
		case "cli":
			c.TokenType = "keymaster_webauth_for_cli_identity"
		case "storage":
			c.TokenType = "storage_data"
		default:
			return nil, false
		}
		var key crypto.Signer = s.signer
		if p[1] == "foreign" {
			key = s.foreignKey
		} else if p[1] != "ok" {
			return nil, false
		}
		if p[2] == "bad" {
			c.Issuer = "https://other.example"
		}
		switch p[3] {
		case "bad":
			c.Audience = []string{"https://other.example"}
		case "empty":
			c.Audience = nil
		case "ok":
		default:
			return nil, false
		}
		if p[4] == "past" {
			c.NotBefore = now - 100
		} else {
			c.NotBefore = now + 36000
		}
		if p[5] == "past" {
			c.Expiration = now - 50
		} else if p[5] == "soon" {
			// a session about to end: valid now, over within vfSoonSecs seconds of the wall clock (for
			// histories that present the same cookie before and after its expiry)
			c.Expiration = time.Now().Unix() + vfSoonSecs
			s.lastSoonExp = c.Expiration
		} else {
			c.Expiration = now + 36000
		}
		lvl, err := strconv.Atoi(p[6])
		if err != nil {
			return nil, false
		}
		c.AuthType = lvl
		val, err := vfMintJWT(key, c)
		if err != nil {
			s.t.Fatal(err)
		}
		req.AddCookie(&http.Cookie{Name: authCookieName, Value: val})
	}
	s.state.passwordChecker = s.realPw.(interface {
		PasswordAuthenticate(string, []byte) (bool, error)
		UpdateStorage(simplestorage.SimpleStore) error
	})
	switch basicTok {
	case "none":
	case "valid":
		req.SetBasicAuth("Username", "password") // normalised to lower case by reprocessUsername
	case "invalid":
		req.SetBasicAuth("username", "wrong-password")
	case "error":
		req.SetBasicAuth("username", "password")
		s.state.passwordChecker = vfErrPw{}
	default:
		return nil, false
	}
	if lim == "1" {
		s.state.passwordAttemptGlobalLimiter = rate.NewLimiter(1e9, 1000000)
	} else if lim == "0" {
		s.state.passwordAttemptGlobalLimiter = rate.NewLimiter(0, 0)
	} else {
		return nil, false
	}
	return req, true
}

// vfTrackRW records whether anything was written at all.
type vfTrackRW struct {
	*httptest.ResponseRecorder
	wrote bool
}

func (w *vfTrackRW) WriteHeader(c int) { w.wrote = true; w.ResponseRecorder.WriteHeader(c) }
func (w *vfTrackRW) Write(b []byte) (int, error) {
	w.wrote = true
	return w.ResponseRecorder.Write(b)
}

func vfCheckAuthOut(info *authInfo, err error, w *vfTrackRW) string {
	if err == nil && info != nil {
		return fmt.Sprintf("ok %s %d", vfHex(info.Username), info.AuthType)
	}
	if !w.wrote {
		return "silent"
	}
	return fmt.Sprintf("fail %d", w.Code)
}

// b64Pub is the submitted public key in the encoding the role-certificate endpoints take.
func (s *vfShapes) b64Pub() string {
	der, err := x509.MarshalPKIXPublicKey(s.userPub)
	if err != nil {
		s.t.Fatal(err)
	}
	return base64.RawURLEncoding.EncodeToString(der)
}
