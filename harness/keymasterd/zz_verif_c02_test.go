package main

// C02 harness: asks the real certGenHandler for certificates under varied user names,
// credentials, key types and configurations, decodes what comes back and verifies it
// against what /public/sshca and /public/x509ca serve.
//
// ops:
//   cfg <disableNorm 0|1> <hostIdentity hex> <realm hex | ~> <ed25519CA 0|1> <n> {<key hex> <value hex>}*n   -> ok
//   cfgfile <same fields>   -> ok | load-error …     the same settings WRITTEN INTO A CONFIGURATION FILE that the real
//        loadVerifyConfigFile reads (and unsealCA unseals) while the process environment carries USERNAME, USER, OTHER,
//        NOPE, HOME …: whatever the loader does to the operator's text is inside the run (ed25519CA must be 0)
//   expand <user hex> <template hex>        -> ok <hex> | err          (the real shell.Expand with the handler's mapper)
//   cert <ssh|x509|k8s> <basic|login|cookie> <login user hex> <pwok 0|1> <url user hex> <keykind> <addGroups 0|1>
//        -> <status>
//         | 200 ssh principals=<hex,..> key=<0|1> type=<n> keyid=<hex> sigkey_published=<0|1> verifies=<0|1> ext=<hex:hex,..>
//         | 200 x509 cn=<hex> key=<0|1> ca=<0|1> bc=<0|1> eku=<n,..> verifies=<0|1> org=<hex,..> san=<none|ok|bad>

import (
	"bytes"
	"crypto"
	"crypto/ecdsa"
	"crypto/ed25519"
	"crypto/elliptic"
	"crypto/rand"
	"crypto/rsa"
	"crypto/x509"
	"encoding/asn1"
	"encoding/pem"
	"fmt"
	"net/http"
	"net/http/httptest"
	"net/url"
	"os"
	"sort"
	"strconv"
	"strings"
	"testing"

	"github.com/Cloud-Foundations/keymaster/lib/simplestorage"
	"github.com/Cloud-Foundations/keymaster/lib/webapi/v0/proto"
	"golang.org/x/crypto/ssh"
)

// vfC02PW accepts every non-empty user name with the password "password".
type vfC02PW struct{}

func (vfC02PW) PasswordAuthenticate(username string, password []byte) (bool, error) {
	return username != "" && string(password) == "password", nil
}
func (vfC02PW) UpdateStorage(storage simplestorage.SimpleStore) error { return nil }

type vfC02Key struct {
	pub     crypto.PublicKey
	sshLine string // authorized_keys format
	sshWire []byte
	pkixPEM string
	pkixDER []byte
}

func vfC02MakeKey(t *testing.T, kind string) vfC02Key {
	var pub crypto.PublicKey
	switch kind {
	case "rsa2048", "rsa3072":
		bits := 2048
		if kind == "rsa3072" {
			bits = 3072
		}
		k, err := rsa.GenerateKey(rand.Reader, bits)
		if err != nil {
			t.Fatal(err)
		}
		pub = &k.PublicKey
	case "p256", "p384":
		curve := elliptic.P256()
		if kind == "p384" {
			curve = elliptic.P384()
		}
		k, err := ecdsa.GenerateKey(curve, rand.Reader)
		if err != nil {
			t.Fatal(err)
		}
		pub = &k.PublicKey
	case "ed25519":
		p, _, err := ed25519.GenerateKey(rand.Reader)
		if err != nil {
			t.Fatal(err)
		}
		pub = p
	default:
		t.Fatalf("unknown key kind %s", kind)
	}
	sp, err := ssh.NewPublicKey(pub)
	if err != nil {
		t.Fatal(err)
	}
	der, err := x509.MarshalPKIXPublicKey(pub)
	if err != nil {
		t.Fatal(err)
	}
	return vfC02Key{pub: pub, sshLine: strings.TrimSpace(string(ssh.MarshalAuthorizedKey(sp))) + " verif@c02\n",
		sshWire: sp.Marshal(), pkixDER: der,
		pkixPEM: string(pem.EncodeToMemory(&pem.Block{Type: "PUBLIC KEY", Bytes: der}))}
}

func vfC02HexList(l []string) string {
	if len(l) == 0 {
		return "-"
	}
	h := make([]string, len(l))
	for i, s := range l {
		h[i] = vfHex(s)
	}
	return strings.Join(h, ",")
}

// vfC02SANState: none / ok (parses as the Kerberos otherName for this realm and user) / bad
func vfC02SANState(c *x509.Certificate, realm *string, user string) string {
	var raw []byte
	for _, e := range c.Extensions {
		if e.Id.Equal(asn1.ObjectIdentifier{2, 5, 29, 17}) {
			raw = e.Value
		}
	}
	if raw == nil {
		return "none"
	}
	if realm == nil {
		return "bad"
	}
	if bytes.Contains(raw, []byte(*realm)) && bytes.Contains(raw, []byte(user)) {
		var seq asn1.RawValue
		if rest, err := asn1.Unmarshal(raw, &seq); err == nil && len(rest) == 0 {
			return "ok"
		}
	}
	return "bad"
}

func TestVerifC02(t *testing.T) {
	vio := vfOpen(t)
	defer vio.close()
	state, cleanup := vfNewState(t)
	defer cleanup()
	state.Config.Base.AllowedAuthBackendsForCerts = []string{proto.AuthTypePassword}
	state.Config.Base.AllowedAuthBackendsForWebUI = []string{proto.AuthTypePassword}
	state.passwordChecker = vfC02PW{}
	handState := state
	// the daemon's environment: an interactive or container start typically carries these
	for _, kv := range [][2]string{{"USERNAME", "daemonacct"}, {"USER", "daemonacct"}, {"LOGNAME", "daemonacct"},
		{"OTHER", "othervalue"}, {"NOPE", "nopevalue"}, {"U", "uvalue"}, {"_a1", "avalue"}, {"USERNAME_x", "xvalue"}} {
		os.Setenv(kv[0], kv[1])
	}
	baseCA := append([][]byte{}, state.caCertDer...)
	baseKeys := append([]crypto.PublicKey{}, state.KeymasterPublicKeys...)
	edSigner, err := getSignerFromPEMBytes([]byte(pkcs8Ed25519PrivateKey))
	if err != nil {
		t.Fatal(err)
	}
	keys := map[string]vfC02Key{}
	for _, k := range []string{"rsa2048", "rsa3072", "p256", "p384", "ed25519"} {
		keys[k] = vfC02MakeKey(t, k)
	}

	for _, line := range vio.ops {
		f := strings.Fields(line)
		if len(f) == 0 {
			vio.emit("bad-op")
			continue
		}
		switch f[0] {
		case "cfgfile":
			if len(f) < 6 {
				vio.emit("bad-op")
				continue
			}
			n, err := strconv.Atoi(f[5])
			if err != nil || len(f) != 6+2*n || f[4] != "0" {
				vio.emit("bad-op")
				continue
			}
			host, _ := vfUnhex(f[2])
			exts := []interface{}{}
			for i := 0; i < n; i++ {
				k, _ := vfUnhex(f[6+2*i])
				v, _ := vfUnhex(f[7+2*i])
				exts = append(exts, map[interface{}]interface{}{"key": k, "value": v})
			}
			settings := map[string]interface{}{
				"base.disable_username_normalization":  f[1] == "1",
				"base.host_identity":                   host,
				"base.kerberos_realm":                  nil,
				"base.ssh_cert_config":                 map[interface{}]interface{}{"extensions": exts},
				"base.allowed_auth_backends_for_certs": []interface{}{proto.AuthTypePassword},
				"base.allowed_auth_backends_for_webui": []interface{}{proto.AuthTypePassword},
				// the run makes thousands of password logins per second
				"base.password_attempt_global_rate_limit":  1000000,
				"base.password_attempt_global_burst_limit": 1000000,
			}
			if f[3] != "~" {
				realm, _ := vfUnhex(f[3])
				settings["base.kerberos_realm"] = realm
			}
			loader, err := vfConfigLoader(t)
			if err != nil {
				vio.emit("harness-error %v", err)
				continue
			}
			st, err := loader.load(settings, true)
			if err != nil {
				vio.emit("load-error %s", strings.Join(strings.Fields(err.Error()), "_"))
				continue
			}
			st.passwordChecker = vfC02PW{}
			state = st
			vio.emit("ok")
		case "cfg":
			state = handState
			if len(f) < 6 {
				vio.emit("bad-op")
				continue
			}
			n, err := strconv.Atoi(f[5])
			if err != nil || len(f) != 6+2*n {
				vio.emit("bad-op")
				continue
			}
			state.Config.Base.DisableUsernameNormalization = f[1] == "1"
			host, _ := vfUnhex(f[2])
			state.HostIdentity = host
			state.KerberosRealm = nil
			if f[3] != "~" {
				realm, _ := vfUnhex(f[3])
				state.KerberosRealm = &realm
			}
			// signers: reset to the RSA signer, optionally add the Ed25519 CA the way loadSignersFromPemData does
			state.caCertDer = append([][]byte{}, baseCA...)
			state.KeymasterPublicKeys = append([]crypto.PublicKey{}, baseKeys...)
			state.Ed25519Signer = nil
			if f[4] == "1" {
				edCA, err := generateCADer(state, edSigner)
				if err != nil {
					t.Fatal(err)
				}
				// same order as loadSignersFromPemData: Ed25519 CA first, primary signer's CA last
				state.caCertDer = append([][]byte{edCA}, baseCA...)
				state.Ed25519Signer = edSigner
				if err := state.signerPublicKeyToKeymasterKeys(); err != nil {
					t.Fatal(err)
				}
			}
			state.Config.Base.SSHCertConfig.Extensions = nil
			for i := 0; i < n; i++ {
				k, _ := vfUnhex(f[6+2*i])
				v, _ := vfUnhex(f[7+2*i])
				state.Config.Base.SSHCertConfig.Extensions = append(state.Config.Base.SSHCertConfig.Extensions,
					sshExtension{Key: k, Value: v})
			}
			vio.emit("ok")
		case "expand":
			if len(f) != 3 {
				vio.emit("bad-op")
				continue
			}
			user, _ := vfUnhex(f[1])
			tmpl, _ := vfUnhex(f[2])
			saved := state.Config.Base.SSHCertConfig.Extensions
			state.Config.Base.SSHCertConfig.Extensions = []sshExtension{{Key: "k", Value: tmpl}}
			m, err := state.expandSSHExtensions(user)
			state.Config.Base.SSHCertConfig.Extensions = saved
			if err != nil {
				vio.emit("err")
			} else {
				vio.emit("ok %s", vfHex(m["k"]))
			}
		case "cert":
			if len(f) != 8 {
				vio.emit("bad-op")
				continue
			}
			loginUser, ok1 := vfUnhex(f[3])
			urlUser, ok2 := vfUnhex(f[5])
			key, ok3 := keys[f[6]]
			if !ok1 || !ok2 || !ok3 {
				vio.emit("bad-op")
				continue
			}
			password := "password"
			if f[4] != "1" {
				password = "wrong"
			}
			q := url.Values{}
			keyData := key.sshLine
			switch f[1] {
			case "ssh":
			case "x509":
				q.Set("type", "x509")
				keyData = key.pkixPEM
			case "k8s":
				q.Set("type", "x509-kubernetes")
				keyData = key.pkixPEM
			default:
				vio.emit("bad-op")
				continue
			}
			if f[7] == "1" {
				q.Set("addGroups", "true")
			}
			req := vfC03KeyRequest("/certgen/x", q, [][2]string{{"duration", "1h"}}, keyData)
			req.URL.Path = "/certgen/" + urlUser
			switch f[2] {
			case "basic":
				req.SetBasicAuth(loginUser, password)
			case "cookie":
				req.AddCookie(vfAuthCookie(t, state, loginUser, AuthTypePassword))
			case "login":
				form := url.Values{}
				form.Set("username", loginUser)
				form.Set("password", password)
				lreq := httptest.NewRequest("POST", "/api/v0/login", strings.NewReader(form.Encode()))
				lreq.Header.Set("Content-Type", "application/x-www-form-urlencoded")
				lrr, p := vfServe(state.loginHandler, lreq)
				if p != nil {
					vio.emit("PANIC login")
					continue
				}
				for _, ck := range lrr.Result().Cookies() {
					if ck.Name == authCookieName {
						req.AddCookie(&http.Cookie{Name: authCookieName, Value: ck.Value})
					}
				}
			default:
				vio.emit("bad-op")
				continue
			}
			rr, p := vfServe(state.certGenHandler, req)
			if p != nil {
				vio.emit("PANIC")
				continue
			}
			if rr.Code != 200 {
				vio.emit("%d", rr.Code)
				continue
			}
			if f[1] == "ssh" {
				// what the server publishes
				prr, _ := vfServe(state.publicPathHandler, httptest.NewRequest("GET", "/public/sshca", nil))
				published := map[string]bool{}
				rest := prr.Body.Bytes()
				for len(bytes.TrimSpace(rest)) > 0 {
					pk, _, _, r2, err := ssh.ParseAuthorizedKey(rest)
					if err != nil {
						break
					}
					published[string(pk.Marshal())] = true
					rest = r2
				}
				pk, _, _, _, err := ssh.ParseAuthorizedKey(rr.Body.Bytes())
				cert, ok := pk.(*ssh.Certificate)
				if err != nil || !ok {
					vio.emit("200 undecodable")
					continue
				}
				sigPublished := published[string(cert.SignatureKey.Marshal())]
				verifies := false
				if len(cert.ValidPrincipals) > 0 {
					checker := &ssh.CertChecker{}
					verifies = checker.CheckCert(cert.ValidPrincipals[0], cert) == nil
				}
				var exts []string
				for k, v := range cert.Permissions.Extensions {
					exts = append(exts, vfHex(k)+":"+vfHex(v))
				}
				sort.Strings(exts)
				extStr := "-"
				if len(exts) > 0 {
					extStr = strings.Join(exts, ",")
				}
				crit := len(cert.Permissions.CriticalOptions)
				vio.emit("200 ssh principals=%s key=%s type=%d keyid=%s sigkey_published=%s verifies=%s crit=%d ext=%s",
					vfC02HexList(cert.ValidPrincipals), vfBool(bytes.Equal(cert.Key.Marshal(), key.sshWire)),
					cert.CertType, vfHex(cert.KeyId), vfBool(sigPublished), vfBool(verifies), crit, extStr)
				continue
			}
			prr, _ := vfServe(state.publicPathHandler, httptest.NewRequest("GET", "/public/x509ca", nil))
			pool := x509.NewCertPool()
			pool.AppendCertsFromPEM(prr.Body.Bytes())
			block, _ := pem.Decode(rr.Body.Bytes())
			if block == nil || block.Type != "CERTIFICATE" {
				vio.emit("200 undecodable")
				continue
			}
			cert, err := x509.ParseCertificate(block.Bytes)
			if err != nil {
				vio.emit("200 unparsable san=%s", map[bool]string{true: "realm", false: "none"}[state.KerberosRealm != nil])
				continue
			}
			der, _ := x509.MarshalPKIXPublicKey(cert.PublicKey)
			_, verr := cert.Verify(x509.VerifyOptions{Roots: pool, KeyUsages: []x509.ExtKeyUsage{x509.ExtKeyUsageClientAuth}})
			var ekus []string
			for _, e := range cert.ExtKeyUsage {
				ekus = append(ekus, strconv.Itoa(int(e)))
			}
			eku := "-"
			if len(ekus) > 0 {
				eku = strings.Join(ekus, ",")
			}
			vio.emit("200 x509 cn=%s key=%s ca=%s bc=%s eku=%s verifies=%s org=%s san=%s",
				vfHex(cert.Subject.CommonName), vfBool(bytes.Equal(der, key.pkixDER)), vfBool(cert.IsCA),
				vfBool(cert.BasicConstraintsValid), eku, vfBool(verr == nil), vfC02HexList(cert.Subject.Organization),
				vfC02SANState(cert, state.KerberosRealm, cert.Subject.CommonName))
		default:
			vio.emit("bad-op")
		}
	}
	_ = fmt.Sprint
}
