package main

// C04, round 3: (a) deployments built by the real configuration loader — which keys the consumers
// trust is then whatever the loader made of the files, and every private key that exists around
// the configuration (admin CA, TLS server key, …) is tried as a token-signing key; (b) sequences of
// storage lookups with the primary database timing out, across a record's signed expiry.

import (
	"crypto"
	"crypto/ecdsa"
	"crypto/elliptic"
	"crypto/rand"
	"crypto/rsa"
	"crypto/x509"
	"encoding/hex"
	"encoding/pem"
	"fmt"
	"io/ioutil"
	"path/filepath"
	"sort"
	"strings"
	"sync"
	"testing"
	"time"

	"github.com/go-jose/go-jose/v4"
	"golang.org/x/crypto/ssh"
)

var vf4CfgEnvs struct {
	sync.Mutex
	m    map[string]*vf4Env
	peer *ecdsa.PrivateKey
}

func vf4ParsePrivateKeyFile(path string) crypto.Signer {
	data, err := ioutil.ReadFile(path)
	if err != nil {
		return nil
	}
	block, _ := pem.Decode(data)
	if block == nil {
		return nil
	}
	if k, err := x509.ParsePKCS1PrivateKey(block.Bytes); err == nil {
		return k
	}
	if k, err := x509.ParsePKCS8PrivateKey(block.Bytes); err == nil {
		if s, ok := k.(crypto.Signer); ok {
			return s
		}
	}
	if k, err := x509.ParseECPrivateKey(block.Bytes); err == nil {
		return k
	}
	return nil
}

// vf4CfgEnv: a deployment as the daemon builds it from a configuration file. peer: the operator lists one
// other keymaster's public key in keymaster_public_keys_filename.
func vf4CfgEnv(t *testing.T, peer bool) (*vf4Env, error) {
	vf4CfgEnvs.Lock()
	defer vf4CfgEnvs.Unlock()
	key := fmt.Sprint(peer)
	if vf4CfgEnvs.m == nil {
		vf4CfgEnvs.m = map[string]*vf4Env{}
	}
	if e := vf4CfgEnvs.m[key]; e != nil {
		e.t = t
		return e, nil
	}
	loader, err := vfConfigLoader(t)
	if err != nil {
		return nil, err
	}
	if vf4CfgEnvs.peer == nil {
		if vf4CfgEnvs.peer, err = ecdsa.GenerateKey(elliptic.P256(), rand.Reader); err != nil {
			return nil, err
		}
	}
	settings := map[string]interface{}{
		"base.host_identity":                   "keymaster.example.com",
		"base.http_address":                    ":443",
		"base.allowed_auth_backends_for_webui": []interface{}{"password"},
		"base.webauth_token_for_cli_lifetime":  "1h",
		"openid_connect_idp.clients": []interface{}{
			map[interface{}]interface{}{"client_id": vf4ClientA, "client_secret": vf4SecretA,
				"allowed_redirect_domains": []interface{}{"localhost"}, "allow_client_chose_audiences": true},
			map[interface{}]interface{}{"client_id": vf4ClientB, "client_secret": vf4SecretB,
				"allowed_redirect_domains": []interface{}{"localhost"}},
		},
	}
	if peer {
		sshPub, err := ssh.NewPublicKey(vf4CfgEnvs.peer.Public())
		if err != nil {
			return nil, err
		}
		fn := filepath.Join(loader.dir, "keymaster_public_keys")
		if err := ioutil.WriteFile(fn, ssh.MarshalAuthorizedKey(sshPub), 0644); err != nil {
			return nil, err
		}
		settings["base.keymaster_public_keys_filename"] = fn
	}
	state, err := loader.load(settings, true)
	if err != nil {
		return nil, err
	}
	e := &vf4Env{t: t, state: state, fixedKeys: true, named: map[string]crypto.Signer{}, peer: vf4CfgEnvs.peer}
	e.named["signer"] = state.Signer
	e.named["peer"] = vf4CfgEnvs.peer
	// every private key lying around the configuration
	var files []string
	for _, pat := range []string{"*.key", "*/*.key", "*/*/*.key", "*/*/*/*.key"} {
		m, _ := filepath.Glob(filepath.Join(loader.dir, pat))
		files = append(files, m...)
	}
	sort.Strings(files)
	for _, fn := range files {
		if k := vf4ParsePrivateKeyFile(fn); k != nil {
			e.named[strings.TrimSuffix(filepath.Base(fn), ".key")] = k
		}
	}
	foreign, err := rsa.GenerateKey(rand.Reader, 2048)
	if err != nil {
		return nil, err
	}
	e.named["foreign"] = foreign
	e.frsa = foreign
	e.mintBase()
	vf4CfgEnvs.m[key] = e
	return e, nil
}

func vf4AlgFor(k crypto.Signer) jose.SignatureAlgorithm {
	alg, err := publicToPreferedJoseSigAlgo(k.Public())
	if err != nil {
		return jose.RS256
	}
	return alg
}

// vf4CfgOp
//
//	cfg <consumer> <kind> <key name> <peer listed 0|1> <ctx>
//
// The artefact of <kind> minted by the real producers of the loader-built deployment, re-signed with the
// named key (`signer` = the deployment's own), is fed to <consumer>. Output like an `op` line plus
// `keys=<names available>` `eff=<names of the keys the loaded state trusts>` `alg=`.
func vf4CfgOp(t *testing.T, f []string) string {
	consumer, kind, keyName, ctxSpec := f[1], f[2], f[3], f[5]
	e, err := vf4CfgEnv(t, f[4] == "1")
	if err != nil {
		return "harness-error " + strings.Join(strings.Fields(err.Error()), "_")
	}
	if time.Since(e.baseAt) > 20*time.Second {
		e.mintBase()
	}
	var names []string
	for n := range e.named {
		names = append(names, n)
	}
	sort.Strings(names)
	if keyName == "list" {
		return "cfgkeys " + strings.Join(names, ",")
	}
	key := e.named[keyName]
	baseTok, ok := e.base[kind]
	if key == nil || !ok {
		return "cfg-skip no-such-key-or-kind keys=" + strings.Join(names, ",")
	}
	payload, _ := vf4Payload(baseTok)
	tok, err := vf4JoseSign(key, vf4AlgFor(key), payload, false)
	if err != nil {
		return "harness-error sign " + err.Error()
	}
	// which of the named keys does the loaded state trust
	fpName := map[string]string{}
	for _, n := range names {
		if fp, err := getKeyFingerprint(e.named[n].Public()); err == nil {
			fpName[fp] = n
		}
	}
	var eff []string
	for _, k := range e.state.KeymasterPublicKeys {
		fp, _ := getKeyFingerprint(k)
		if n, ok := fpName[fp]; ok {
			eff = append(eff, n)
		} else {
			eff = append(eff, "unknown-"+vf12KeyKind(k))
		}
	}
	sort.Strings(eff)
	pre := e.dbDigest()
	now := time.Now().Unix()
	res, err := e.consume(consumer, tok, vf4Ctx(ctxSpec), now)
	if err != nil {
		return "harness-error " + strings.Join(strings.Fields(err.Error()), "_")
	}
	if strings.HasPrefix(res.extra, "dbpre=") {
		pre = strings.Fields(res.extra)[0][6:]
		res.extra = ""
	}
	db := 0
	if e.dbDigest() != pre {
		db = 1
	}
	return fmt.Sprintf("%s | fx=%d%d%d db=%d now=%d same=1 slots=%s wire=%s alg=%s keytype=%s issuer=%s keys=%s eff=%s %s", res.dec, res.sc, res.ho, res.di, db, now,
		strings.Join(res.slots[:], ","), hex.EncodeToString(payload), vf4AlgFor(key), vf12KeyKind(key.Public()), vfHex(e.state.idpGetIssuer()),
		strings.Join(names, ","), strings.Join(eff, ","), res.extra)
}

// vf4SeqOp
//
//	seq <seconds until the records' signed exp> <extra milliseconds to wait after it>
//
// Storage lookups as a sequence: four records (one user each) are stored by the real producer with a
// signed exp a few seconds ahead — in the primary table and in the local copy, as after a sync. Each is
// looked up before its expiry and again after it, with the primary database answering ("up") or timing out
// ("down": remoteDBQueryTimeout elapsed, the local copy is consulted) in the four combinations. One line:
// `seq | <user> <n> <up|down> now= dec=<…> colexp= wire= ;; …`
func (e *vf4Env) vf4SeqOp(f []string) string {
	st := e.state
	var off, extra int64
	fmt.Sscan(f[1], &off)
	fmt.Sscan(f[2], &extra)
	e.setDeployment("single")
	type variant struct {
		user         string
		first, after string
	}
	variants := []variant{{"seqdowndown", "down", "down"}, {"seqdownup", "down", "up"}, {"sequpup", "up", "up"}, {"sequpdown", "up", "down"}}
	start := time.Now().Unix()
	exp := start + off
	wires := map[string]string{}
	if _, err := st.db.Exec("delete from expiring_signed_user_data"); err != nil {
		return "harness-error " + err.Error()
	}
	st.cacheDB.Exec("delete from expiring_signed_user_data")
	for _, v := range variants {
		tok, err := st.genNewSerializedStorageStringDataJWT(v.user, 1, "hash-of-"+v.user, exp)
		if err != nil {
			return "harness-error " + err.Error()
		}
		pl, _ := vf4Payload(tok)
		wires[v.user] = hex.EncodeToString(pl)
		// "or replace": the state's own BackgroundDBCopy (first run dbSyncDelayDefault after start-up) may copy the
		// primary row into the local copy between the two statements
		const ins = "insert or replace into expiring_signed_user_data(username, type, jws_data, expiration_epoch, update_epoch) values(?,?,?,?,?)"
		if _, err := st.db.Exec(ins, v.user, 1, tok, exp, start); err != nil {
			return "harness-error " + err.Error()
		}
		if _, err := st.cacheDB.Exec(ins, v.user, 1, tok, exp, start); err != nil {
			return "harness-error cache " + err.Error()
		}
	}
	lookup := func(user, mode string, n int) string {
		saved := st.remoteDBQueryTimeout
		if mode == "down" {
			st.remoteDBQueryTimeout = 0 // the primary does not answer in time: the local copy is consulted
		}
		now := time.Now().Unix()
		ok, data, gerr := st.GetSigned(user, 1)
		st.remoteDBQueryTimeout = saved
		dec := "rej-crypto"
		switch {
		case gerr == nil && ok:
			dec = "ok-" + vfHex(data)
		case gerr == nil:
			dec = "rej-notFound"
		case gerr.Error() == "invalid JWT values":
			dec = "rej-values"
		case strings.Contains(gerr.Error(), "data type"):
			dec = "rej-dtype"
		case strings.Contains(gerr.Error(), "expired"):
			dec = "rej-expired"
		case strings.Contains(gerr.Error(), "inconsistent"):
			dec = "rej-subject"
		}
		return fmt.Sprintf("%s %d %s now=%d dec=%s colexp=%d wire=%s", user, n, mode, now, dec, exp, wires[user])
	}
	var steps []string
	for _, v := range variants {
		steps = append(steps, lookup(v.user, v.first, 1))
	}
	if time.Now().Unix() >= exp {
		return "seq-too-slow"
	}
	time.Sleep(time.Until(time.Unix(exp+1, 0)) + time.Duration(extra)*time.Millisecond)
	for _, v := range variants {
		steps = append(steps, lookup(v.user, v.after, 2))
		// and once more the other way round
		other := "up"
		if v.after == "up" {
			other = "down"
		}
		steps = append(steps, lookup(v.user, other, 3))
	}
	st.db.Exec("delete from expiring_signed_user_data")
	st.cacheDB.Exec("delete from expiring_signed_user_data")
	return "seq | " + strings.Join(steps, " ;; ")
}
