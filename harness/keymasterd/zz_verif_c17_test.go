package main

import (
	"net/http"
	"net/http/httptest"
	"net/url"
	"strconv"
	"strings"
	"testing"
	"time"

	"github.com/Cloud-Foundations/keymaster/lib/webapi/v0/proto"
	"golang.org/x/oauth2"
)

func vfFormPost(path string, form url.Values) *http.Request {
	req := httptest.NewRequest("POST", path, strings.NewReader(form.Encode()))
	req.Header.Set("Content-Type", "application/x-www-form-urlencoded")
	req.Header.Set("Accept", "text/html")
	return req
}

const vfC17OwnHost = "keymaster.example.com"

func vfC17Oauth2Config(state *RuntimeState) {
	state.Config.Oauth2.Enabled = true
	state.Config.Oauth2.Config = &oauth2.Config{ClientID: "vf", ClientSecret: "vf",
		Endpoint:    oauth2.Endpoint{AuthURL: "http://localhost:12345/auth", TokenURL: "http://localhost:12345/token"},
		RedirectURL: "https://" + vfC17OwnHost + redirectPath}
	state.Config.Oauth2.UserinfoUrl = "http://localhost:12345/userinfo"
}

// vfC17Flow plays one browser through a history of federated-login requests against the real handlers:
//
//	B <hex dest|-> <n|j|idx>   POST /auth/oauth2/login with this login_destination (`-`: no field), presenting no
//	                           oauth2_redir cookie / the one in the browser's jar / the one attempt idx received
//	C <i> <j>                  GET /auth/oauth2/callback with the state of attempt i and the cookie of attempt j
//
// and answers `flow <parseOK of each begin's filtered destination|-> {<hex Location>|STATUSnnn|PANIC}` (one result
// per callback). Every request is addressed to vfC17OwnHost.
func vfC17Flow(state *RuntimeState, f []string) string {
	vfC17Oauth2Config(state)
	type attempt struct {
		cookie *http.Cookie
		state  string
	}
	var attempts []attempt
	var jar *http.Cookie
	bits := ""
	var results []string
	for len(f) > 0 {
		if len(f) < 3 {
			return "bad-op"
		}
		switch f[0] {
		case "B":
			form := url.Values{}
			if f[1] != "-" {
				s, ok := vfUnhex(f[1])
				if !ok {
					return "bad-op"
				}
				form.Set("login_destination", s)
			}
			req := vfFormPost(oauth2LoginBeginPath, form)
			req.Host = vfC17OwnHost
			held := jar
			switch f[2] {
			case "n":
				held = nil
			case "j":
			default:
				k, err := strconv.Atoi(f[2])
				if err != nil || k < 0 || k >= len(attempts) {
					return "bad-op"
				}
				held = attempts[k].cookie
			}
			if held != nil {
				req.AddCookie(&http.Cookie{Name: held.Name, Value: held.Value})
			}
			// what the filter makes of this request, and whether url.Parse accepts that (the model's oracle)
			freq := vfFormPost(oauth2LoginBeginPath, form)
			freq.Host = vfC17OwnHost
			filtered := getLoginDestination(freq)
			u, err := url.Parse(filtered)
			bits += vfBool(err == nil && u.Scheme == "" && u.Host == "")
			br, p := vfServe(state.oauth2DoRedirectoToProviderHandler, req)
			if p != nil || br.Code != 302 {
				return "flow-begin-failed"
			}
			pu, err := url.Parse(br.Header().Get("Location"))
			if err != nil {
				return "flow-begin-failed"
			}
			for _, c := range br.Result().Cookies() {
				if c.Name == redirCookieName {
					held = c // the browser replaces the cookie it had
				}
			}
			if held == nil {
				return "flow-begin-failed"
			}
			jar = held
			attempts = append(attempts, attempt{held, pu.Query().Get("state")})
		case "C":
			i, err1 := strconv.Atoi(f[1])
			j, err2 := strconv.Atoi(f[2])
			if err1 != nil || err2 != nil || i < 0 || j < 0 || i >= len(attempts) || j >= len(attempts) {
				return "bad-op"
			}
			cb := httptest.NewRequest("GET", redirectPath+"?code=x&state="+url.QueryEscape(attempts[i].state), nil)
			cb.Host = vfC17OwnHost
			cb.AddCookie(&http.Cookie{Name: attempts[j].cookie.Name, Value: attempts[j].cookie.Value})
			if cr, p := vfServe(state.oauth2RedirectPathHandler, cb); p != nil {
				results = append(results, "PANIC")
			} else if cr.Code == 302 {
				results = append(results, vfHex(cr.Header().Get("Location")))
			} else {
				results = append(results, "STATUS"+strconv.Itoa(cr.Code))
			}
		default:
			return "bad-op"
		}
		f = f[3:]
	}
	if bits == "" {
		bits = "-"
	}
	return strings.TrimSpace("flow " + bits + " " + strings.Join(results, " "))
}

// TestVerifC17: for every `dest <hex> -` op emit
//
//	<hex filtered> <hex Location from http.Redirect> <parseOK> <n handler locations> {<name>=<hex Location>}
func TestVerifC17(t *testing.T) {
	io := vfOpen(t)
	defer io.close()
	state, cleanup := vfNewState(t)
	defer cleanup()
	for _, line := range io.ops {
		f := strings.Fields(line)
		if len(f) >= 1 && f[0] == "flow" {
			io.emit("%s", vfC17Flow(state, f[1:]))
			continue
		}
		if len(f) != 3 || f[0] != "dest" {
			io.emit("bad-op")
			continue
		}
		s, ok := vfUnhex(f[1])
		if !ok {
			io.emit("bad-op")
			continue
		}
		// carrier of the destination: `-` the login_destination form field; `ref` / `ref2`: NO such field, the
		// string is the path of a Referer that names keymasterd's own host (absolute / scheme-relative)
		carrier := f[2]
		addCarrier := func(r *http.Request) *http.Request {
			switch carrier {
			case "ref":
				r.Header.Set("Referer", "https://"+r.Host+s)
			case "ref2":
				r.Header.Set("Referer", "//"+r.Host+s)
			case "own":
				// the request is addressed to keymasterd under its own name: the destination strings of this
				// carrier are absolute / scheme-relative URLs naming that very host
				r.Host = vfC17OwnHost
			}
			return r
		}
		form := url.Values{}
		if carrier == "-" || carrier == "own" {
			form.Set("login_destination", s)
		} else if carrier != "ref" && carrier != "ref2" {
			io.emit("bad-op")
			continue
		}
		// 1. the filter itself
		req := addCarrier(vfFormPost("/api/v0/login", form))
		filtered := getLoginDestination(req)
		u, err := url.Parse(filtered)
		parseOK := err == nil && u.Scheme == "" && u.Host == ""
		// 2. what net/http writes for it
		rr := httptest.NewRecorder()
		http.Redirect(rr, req, filtered, 302)
		direct := rr.Header().Get("Location")
		var locs []string
		// 3a. password login with password-only web UI
		state.Config.Base.AllowedAuthBackendsForWebUI = []string{proto.AuthTypePassword}
		form.Set("username", "username")
		form.Set("password", "password")
		hr, p := vfServe(state.loginHandler, addCarrier(vfFormPost("/api/v0/login", form)))
		if p != nil {
			locs = append(locs, "login=PANIC")
		} else if hr.Code == 302 {
			locs = append(locs, "login="+vfHex(hr.Header().Get("Location")))
		} else {
			locs = append(locs, "login=STATUS"+strconv.Itoa(hr.Code))
		}
		// 3b. bootstrap OTP second factor
		state.Config.Base.AllowedAuthBackendsForWebUI = []string{proto.AuthTypeBootstrapOTP}
		profile := &userProfile{BootstrapOTP: bootstrapOTPData{
			ExpiresAt:  time.Now().Add(time.Minute),
			Sha512Hash: testBootstrapOtpHash[:],
		}}
		if err := state.SaveUserProfile("bob", profile); err != nil {
			t.Fatal(err)
		}
		form2 := url.Values{}
		if carrier == "-" || carrier == "own" {
			form2.Set("login_destination", s)
		}
		form2.Set("OTP", testBootstrapOTP)
		breq := addCarrier(vfFormPost(bootstrapOtpAuthPath, form2))
		breq.AddCookie(vfAuthCookie(t, state, "bob", AuthTypePassword))
		hr, p = vfServe(state.BootstrapOtpAuthHandler, breq)
		if p != nil {
			locs = append(locs, "bootstrap=PANIC")
		} else if hr.Code == 302 {
			locs = append(locs, "bootstrap="+vfHex(hr.Header().Get("Location")))
		} else {
			locs = append(locs, "bootstrap=STATUS"+strconv.Itoa(hr.Code))
		}
		// 3c. federated login through the real handlers: the destination is parked at
		// /auth/oauth2/login and used by the callback (stub IdP of the repo's own tests on :12345)
		vfC17Oauth2Config(state)
		oloc := "oauth2=STATUSbegin"
		if br, p := vfServe(state.oauth2DoRedirectoToProviderHandler, addCarrier(vfFormPost(oauth2LoginBeginPath, form2))); p == nil && br.Code == 302 {
			if u, err := url.Parse(br.Header().Get("Location")); err == nil {
				cb := httptest.NewRequest("GET", redirectPath+"?code=x&state="+url.QueryEscape(u.Query().Get("state")), nil)
				for _, c := range br.Result().Cookies() {
					cb.AddCookie(c)
				}
				addCarrier(cb)
				if cr, p := vfServe(state.oauth2RedirectPathHandler, cb); p != nil {
					oloc = "oauth2=PANIC"
				} else if cr.Code == 302 {
					oloc = "oauth2=" + vfHex(cr.Header().Get("Location"))
				} else {
					oloc = "oauth2=STATUS" + strconv.Itoa(cr.Code)
				}
			}
		}
		locs = append(locs, oloc)
		io.emit("%s %s %s %d %s", vfHex(filtered), vfHex(direct), vfBool(parseOK), len(locs), strings.Join(locs, " "))
	}
}
