package main

import (
	"net/http"
	"net/http/httptest"
	"net/url"
	"strconv"
	"strings"
	"testing"
	"time"

	"github.com/Cloud-Foundations/keymaster/lib/webapi/v0/proto"
	"golang.org/x/oauth2"
)

func vfFormPost(path string, form url.Values) *http.Request {
	req := httptest.NewRequest("POST", path, strings.NewReader(form.Encode()))
	req.Header.Set("Content-Type", "application/x-www-form-urlencoded")
	req.Header.Set("Accept", "text/html")
	return req
}

// TestVerifC17: for every `dest <hex> -` op emit
//
//	<hex filtered> <hex Location from http.Redirect> <parseOK> <n handler locations> {<name>=<hex Location>}
func TestVerifC17(t *testing.T) {
	io := vfOpen(t)
	defer io.close()
	state, cleanup := vfNewState(t)
	defer cleanup()
	for _, line := range io.ops {
		f := strings.Fields(line)
		if len(f) != 3 || f[0] != "dest" {
			io.emit("bad-op")
			continue
		}
		s, ok := vfUnhex(f[1])
		if !ok {
			io.emit("bad-op")
			continue
		}
		// carrier of the destination: `-` the login_destination form field; `ref` / `ref2`: NO such field, the
		// string is the path of a Referer that names keymasterd's own host (absolute / scheme-relative)
		carrier := f[2]
		addCarrier := func(r *http.Request) *http.Request {
			switch carrier {
			case "ref":
				r.Header.Set("Referer", "https://"+r.Host+s)
			case "ref2":
				r.Header.Set("Referer", "//"+r.Host+s)
			}
			return r
		}
		form := url.Values{}
		if carrier == "-" {
			form.Set("login_destination", s)
		} else if carrier != "ref" && carrier != "ref2" {
			io.emit("bad-op")
			continue
		}
		// 1. the filter itself
		req := addCarrier(vfFormPost("/api/v0/login", form))
		filtered := getLoginDestination(req)
		u, err := url.Parse(filtered)
		parseOK := err == nil && u.Scheme == "" && u.Host == ""
		// 2. what net/http writes for it
		rr := httptest.NewRecorder()
		http.Redirect(rr, req, filtered, 302)
		direct := rr.Header().Get("Location")
		var locs []string
		// 3a. password login with password-only web UI
		state.Config.Base.AllowedAuthBackendsForWebUI = []string{proto.AuthTypePassword}
		form.Set("username", "username")
		form.Set("password", "password")
		hr, p := vfServe(state.loginHandler, addCarrier(vfFormPost("/api/v0/login", form)))
		if p != nil {
			locs = append(locs, "login=PANIC")
		} else if hr.Code == 302 {
			locs = append(locs, "login="+vfHex(hr.Header().Get("Location")))
		} else {
			locs = append(locs, "login=STATUS"+strconv.Itoa(hr.Code))
		}
		// 3b. bootstrap OTP second factor
		state.Config.Base.AllowedAuthBackendsForWebUI = []string{proto.AuthTypeBootstrapOTP}
		profile := &userProfile{BootstrapOTP: bootstrapOTPData{
			ExpiresAt:  time.Now().Add(time.Minute),
			Sha512Hash: testBootstrapOtpHash[:],
		}}
		if err := state.SaveUserProfile("bob", profile); err != nil {
			t.Fatal(err)
		}
		form2 := url.Values{}
		if carrier == "-" {
			form2.Set("login_destination", s)
		}
		form2.Set("OTP", testBootstrapOTP)
		breq := addCarrier(vfFormPost(bootstrapOtpAuthPath, form2))
		breq.AddCookie(vfAuthCookie(t, state, "bob", AuthTypePassword))
		hr, p = vfServe(state.BootstrapOtpAuthHandler, breq)
		if p != nil {
			locs = append(locs, "bootstrap=PANIC")
		} else if hr.Code == 302 {
			locs = append(locs, "bootstrap="+vfHex(hr.Header().Get("Location")))
		} else {
			locs = append(locs, "bootstrap=STATUS"+strconv.Itoa(hr.Code))
		}
		// 3c. federated login through the real handlers: the destination is parked at
		// /auth/oauth2/login and used by the callback (stub IdP of the repo's own tests on :12345)
		state.Config.Oauth2.Enabled = true
		state.Config.Oauth2.Config = &oauth2.Config{ClientID: "vf", ClientSecret: "vf",
			Endpoint:    oauth2.Endpoint{AuthURL: "http://localhost:12345/auth", TokenURL: "http://localhost:12345/token"},
			RedirectURL: "https://keymaster.example.com" + redirectPath}
		state.Config.Oauth2.UserinfoUrl = "http://localhost:12345/userinfo"
		oloc := "oauth2=STATUSbegin"
		if br, p := vfServe(state.oauth2DoRedirectoToProviderHandler, addCarrier(vfFormPost(oauth2LoginBeginPath, form2))); p == nil && br.Code == 302 {
			if u, err := url.Parse(br.Header().Get("Location")); err == nil {
				cb := httptest.NewRequest("GET", redirectPath+"?code=x&state="+url.QueryEscape(u.Query().Get("state")), nil)
				for _, c := range br.Result().Cookies() {
					cb.AddCookie(c)
				}
				addCarrier(cb)
				if cr, p := vfServe(state.oauth2RedirectPathHandler, cb); p != nil {
					oloc = "oauth2=PANIC"
				} else if cr.Code == 302 {
					oloc = "oauth2=" + vfHex(cr.Header().Get("Location"))
				} else {
					oloc = "oauth2=STATUS" + strconv.Itoa(cr.Code)
				}
			}
		}
		locs = append(locs, oloc)
		io.emit("%s %s %s %d %s", vfHex(filtered), vfHex(direct), vfBool(parseOK), len(locs), strings.Join(locs, " "))
	}
}
