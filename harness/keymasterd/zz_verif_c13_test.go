package main

import (
	"net/http"
	"net/url"
	"regexp"
	"strings"
	"testing"
)

// vfC13List decodes a list field: "." = empty list, otherwise hex items separated by ','.
func vfC13List(s string) ([]string, bool) {
	if s == "." {
		return nil, true
	}
	var out []string
	for _, it := range strings.Split(s, ",") {
		v, ok := vfUnhex(it)
		if !ok {
			return nil, false
		}
		out = append(out, v)
	}
	return out, true
}

// TestVerifC13 drives the real redirect validator of the OpenID Connect IdP.
//
//	cfg <name> <domains> <patterns>   add a client configuration                         -> ok
//	url <hex>                         url.Parse view + every client's verdicts           ->
//	    <err> <scheme> <hostname> <rawquery> <path> {<name>=<A|R|E><cors>:<re verdicts>} g<generic cors>
//	auth <client id> <hex>            POST /idp/oauth2/authorize with that redirect_uri  -> <status> <hex Location>
func TestVerifC13(t *testing.T) {
	io := vfOpen(t)
	defer io.close()
	state, cleanup := vfNewState(t)
	defer cleanup()
	state.Config.Base.AllowedAuthBackendsForWebUI = []string{"password"}
	state.HostIdentity = "localhost"
	cookie := vfAuthCookie(t, state, "username", AuthTypePassword)
	var names []string
	for _, line := range io.ops {
		f := strings.Fields(line)
		switch {
		case len(f) == 4 && f[0] == "cfg":
			doms, ok1 := vfC13List(f[2])
			pats, ok2 := vfC13List(f[3])
			if !ok1 || !ok2 {
				io.emit("bad-op")
				continue
			}
			state.Config.OpenIDConnectIDP.Client = append(state.Config.OpenIDConnectIDP.Client,
				OpenIDConnectClientConfig{ClientID: f[1], AllowedRedirectDomains: doms, AllowedRedirectURLRE: pats})
			names = append(names, f[1])
			io.emit("ok")
		case len(f) == 2 && f[0] == "url":
			s, ok := vfUnhex(f[1])
			if !ok {
				io.emit("bad-op")
				continue
			}
			var out []string
			u, err := url.Parse(s)
			if err != nil {
				out = append(out, "1 - - - -")
			} else {
				out = append(out, "0 "+vfHex(u.Scheme)+" "+vfHex(u.Hostname())+" "+vfHex(u.RawQuery)+" "+vfHex(u.Path))
			}
			for _, name := range names {
				client, err := state.idpOpenIDCGetClientConfig(name)
				if err != nil {
					out = append(out, name+"=?")
					continue
				}
				verdict := "R"
				okRedirect, parsed, err := client.CanRedirectToURL(s)
				if err != nil {
					verdict = "E"
				} else if okRedirect {
					verdict = "A"
					// the *url.URL handed back must be the one the decision was taken on
					if parsed == nil || u == nil || parsed.String() != u.String() {
						verdict = "A!"
					}
				}
				cors, err := client.CorsOriginAllowed(s)
				if err != nil {
					cors = false
				}
				res := ""
				for _, re := range client.AllowedRedirectURLRE {
					m, err := regexp.MatchString(re, s)
					switch {
					case err != nil:
						res += "e"
					case m:
						res += "1"
					default:
						res += "0"
					}
				}
				if res == "" {
					res = "."
				}
				out = append(out, name+"="+verdict+vfBool(cors)+":"+res)
			}
			g, err := state.idpOpenIDCGenericIsCorsOriginAllowed(s)
			if err != nil {
				g = false
			}
			out = append(out, "g"+vfBool(g))
			io.emit("%s", strings.Join(out, " "))
		case len(f) == 3 && f[0] == "auth":
			s, ok := vfUnhex(f[2])
			if !ok {
				io.emit("bad-op")
				continue
			}
			form := url.Values{}
			form.Add("scope", "openid")
			form.Add("response_type", "code")
			form.Add("client_id", f[1])
			form.Add("redirect_uri", s)
			form.Add("nonce", "123456789")
			form.Add("state", "this is my state")
			req, err := http.NewRequest("POST", idpOpenIDCAuthorizationPath, strings.NewReader(form.Encode()))
			if err != nil {
				t.Fatal(err)
			}
			req.Header.Add("Content-Type", "application/x-www-form-urlencoded")
			req.AddCookie(cookie)
			rr, p := vfServe(state.idpOpenIDCAuthorizationHandler, req)
			if p != nil {
				io.emit("PANIC -")
				continue
			}
			io.emit("%d %s", rr.Code, vfHex(rr.Header().Get("Location")))
		default:
			io.emit("bad-op")
		}
	}
}
