package main

import (
	"fmt"
	"net/http"
	"net/url"
	"regexp"
	"sort"
	"strings"
	"sync"
	"testing"
)

// vfC13List decodes a list field: "." = empty list, otherwise hex items separated by ','.
func vfC13List(s string) ([]string, bool) {
	if s == "." {
		return nil, true
	}
	var out []string
	for _, it := range strings.Split(s, ",") {
		v, ok := vfUnhex(it)
		if !ok {
			return nil, false
		}
		out = append(out, v)
	}
	return out, true
}

// TestVerifC13 drives the real redirect validator of the OpenID Connect IdP.
//
//	cfg <name> <domains> <patterns>   add a client configuration                         -> ok
//	url <hex>                         url.Parse view + every client's verdicts           ->
//	    <err> <scheme> <hostname> <rawquery> <path> {<name>=<A|R|E><cors>:<re verdicts>} g<generic cors>
//	auth <client id> <hex>            POST /idp/oauth2/authorize with that redirect_uri  -> <status> <hex Location>
//	load                              write every client given so far into openid_connect_idp.clients of a
//	                                  configuration FILE, read it with the real loadVerifyConfigFile, unseal
//	                                  -> loaded {<name>:<d|D><p|P>}  (capital = effective list differs from the written one)
//	                                  afterwards every url line also carries L<name>=<A|R|E><cors> … Lg<generic cors>
//	                                  taken on the loader-built state
//	lauth <client id> <hex>           auth on the loader-built state
//
// The regexp verdicts reported are those of the patterns as WRITTEN in the cfg op, never of what a state holds.
func TestVerifC13(t *testing.T) {
	io := vfOpen(t)
	defer io.close()
	state, cleanup := vfNewState(t)
	defer cleanup()
	state.Config.Base.AllowedAuthBackendsForWebUI = []string{"password"}
	state.HostIdentity = "localhost"
	cookie := vfAuthCookie(t, state, "username", AuthTypePassword)
	var names []string
	written := map[string][2][]string{} // name -> (domains, patterns) as the operator wrote them
	var lstate *RuntimeState            // built by the real loader from a configuration file
	var lcookie *http.Cookie
	verdictOf := func(st *RuntimeState, name, s string, u *url.URL) string {
		client, err := st.idpOpenIDCGetClientConfig(name)
		if err != nil {
			return "?0"
		}
		verdict := "R"
		okRedirect, parsed, err := client.CanRedirectToURL(s)
		if err != nil {
			verdict = "E"
		} else if okRedirect {
			verdict = "A"
			// the *url.URL handed back must be the one the decision was taken on
			if parsed == nil || u == nil || parsed.String() != u.String() {
				verdict = "A!"
			}
		}
		cors, err := client.CorsOriginAllowed(s)
		if err != nil {
			cors = false
		}
		return verdict + vfBool(cors)
	}
	authorize := func(st *RuntimeState, ck *http.Cookie, clientID, s string) string {
		form := url.Values{}
		form.Add("scope", "openid")
		form.Add("response_type", "code")
		form.Add("client_id", clientID)
		form.Add("redirect_uri", s)
		form.Add("nonce", "123456789")
		form.Add("state", "this is my state")
		req, err := http.NewRequest("POST", idpOpenIDCAuthorizationPath, strings.NewReader(form.Encode()))
		if err != nil {
			t.Fatal(err)
		}
		req.Header.Add("Content-Type", "application/x-www-form-urlencoded")
		req.AddCookie(ck)
		rr, p := vfServe(st.idpOpenIDCAuthorizationHandler, req)
		if p != nil {
			return "PANIC -"
		}
		return fmt.Sprintf("%d %s", rr.Code, vfHex(rr.Header().Get("Location")))
	}
	for _, line := range io.ops {
		f := strings.Fields(line)
		switch {
		case len(f) == 4 && f[0] == "cfg":
			doms, ok1 := vfC13List(f[2])
			pats, ok2 := vfC13List(f[3])
			if !ok1 || !ok2 {
				io.emit("bad-op")
				continue
			}
			state.Config.OpenIDConnectIDP.Client = append(state.Config.OpenIDConnectIDP.Client,
				OpenIDConnectClientConfig{ClientID: f[1], AllowedRedirectDomains: doms, AllowedRedirectURLRE: pats})
			names = append(names, f[1])
			written[f[1]] = [2][]string{doms, pats}
			io.emit("ok")
		case len(f) == 1 && f[0] == "load":
			loader, err := vfConfigLoader(t)
			if err != nil {
				io.emit("load-error %s", strings.Join(strings.Fields(err.Error()), "_"))
				continue
			}
			clients := []interface{}{}
			for _, name := range names {
				doms, pats := []interface{}{}, []interface{}{}
				for _, d := range written[name][0] {
					doms = append(doms, d)
				}
				for _, p := range written[name][1] {
					pats = append(pats, p)
				}
				clients = append(clients, map[interface{}]interface{}{"client_id": name, "client_secret": "secret-" + name,
					"allowed_redirect_domains": doms, "allowed_redirect_url_re": pats})
			}
			st, err := loader.load(map[string]interface{}{
				"openid_connect_idp.clients":              clients,
				"openid_connect_idp.default_email_domain": "example.com",
				"base.allowed_auth_backends_for_webui":    []interface{}{"password"},
			}, true)
			if err != nil {
				io.emit("load-error %s", strings.Join(strings.Fields(err.Error()), "_"))
				continue
			}
			lstate = st
			lcookie = vfAuthCookie(t, lstate, "username", AuthTypePassword)
			out := []string{"loaded"}
			for _, name := range names {
				eff := "?"
				if c, err := lstate.idpOpenIDCGetClientConfig(name); err == nil {
					eff = "d"
					if strings.Join(c.AllowedRedirectDomains, "\x00") != strings.Join(written[name][0], "\x00") ||
						len(c.AllowedRedirectDomains) != len(written[name][0]) {
						eff = "D"
					}
					if strings.Join(c.AllowedRedirectURLRE, "\x00") != strings.Join(written[name][1], "\x00") ||
						len(c.AllowedRedirectURLRE) != len(written[name][1]) {
						eff += "P"
					} else {
						eff += "p"
					}
				}
				out = append(out, name+":"+eff)
			}
			io.emit("%s", strings.Join(out, " "))
		case len(f) == 2 && f[0] == "url":
			s, ok := vfUnhex(f[1])
			if !ok {
				io.emit("bad-op")
				continue
			}
			var out []string
			u, err := url.Parse(s)
			if err != nil {
				out = append(out, "1 - - - -")
			} else {
				out = append(out, "0 "+vfHex(u.Scheme)+" "+vfHex(u.Hostname())+" "+vfHex(u.RawQuery)+" "+vfHex(u.Path))
			}
			for _, name := range names {
				res := ""
				for _, re := range written[name][1] {
					m, err := regexp.MatchString(re, s)
					switch {
					case err != nil:
						res += "e"
					case m:
						res += "1"
					default:
						res += "0"
					}
				}
				if res == "" {
					res = "."
				}
				out = append(out, name+"="+verdictOf(state, name, s, u)+":"+res)
			}
			g, err := state.idpOpenIDCGenericIsCorsOriginAllowed(s)
			if err != nil {
				g = false
			}
			out = append(out, "g"+vfBool(g))
			if lstate != nil {
				for _, name := range names {
					out = append(out, "L"+name+"="+verdictOf(lstate, name, s, u))
				}
				lg, err := lstate.idpOpenIDCGenericIsCorsOriginAllowed(s)
				if err != nil {
					lg = false
				}
				out = append(out, "Lg"+vfBool(lg))
			}
			io.emit("%s", strings.Join(out, " "))
		case len(f) == 3 && f[0] == "burst":
			// burst <url> <n>: the FIRST requests a freshly started daemon gets for every client, n of them at the
			// same moment (barrier), each on a state whose clients were just built from what the operator wrote
			// (plus patterns that can never match, which change no decision but give a lazy initialiser work to
			// do). Output per client: the set of distinct verdicts the n callers saw.
			s, ok := vfUnhex(f[1])
			n := 0
			fmt.Sscan(f[2], &n)
			if !ok || n < 2 || n > 64 {
				io.emit("bad-op")
				continue
			}
			u, _ := url.Parse(s)
			fresh := &RuntimeState{logger: state.logger}
			fresh.Config = state.Config
			fresh.Config.OpenIDConnectIDP.Client = nil
			for _, name := range names {
				pats := append([]string{}, written[name][1]...)
				if len(pats) > 0 {
					for k := 0; k < 24; k++ {
						pats = append(pats, fmt.Sprintf("^https://never-%d\\.invalid/(a|b|c)*d{2,%d}(x?y?z?){3}$", k, k+3))
					}
				}
				fresh.Config.OpenIDConnectIDP.Client = append(fresh.Config.OpenIDConnectIDP.Client,
					OpenIDConnectClientConfig{ClientID: name, AllowedRedirectDomains: append([]string{}, written[name][0]...), AllowedRedirectURLRE: pats})
			}
			sets := make([]map[string]bool, len(names))
			for i := range sets {
				sets[i] = map[string]bool{}
			}
			var mu sync.Mutex
			var wg sync.WaitGroup
			gate := make(chan struct{})
			for w := 0; w < n; w++ {
				wg.Add(1)
				go func(w int) {
					defer wg.Done()
					defer func() { recover() }()
					<-gate
					for k := range names {
						i := (k + w) % len(names)
						v := verdictOf(fresh, names[i], s, u)
						mu.Lock()
						sets[i][v] = true
						mu.Unlock()
					}
				}(w)
			}
			close(gate)
			wg.Wait()
			var out []string
			for i, name := range names {
				var vs []string
				for v := range sets[i] {
					vs = append(vs, v)
				}
				sort.Strings(vs)
				out = append(out, name+"="+strings.Join(vs, "|"))
			}
			io.emit("%s", strings.Join(out, " "))
		case len(f) == 3 && (f[0] == "auth" || f[0] == "lauth"):
			s, ok := vfUnhex(f[2])
			if !ok {
				io.emit("bad-op")
				continue
			}
			if f[0] == "auth" {
				io.emit("%s", authorize(state, cookie, f[1], s))
			} else if lstate == nil {
				io.emit("not-loaded -")
			} else {
				io.emit("%s", authorize(lstate, lcookie, f[1], s))
			}
		default:
			io.emit("bad-op")
		}
	}
}
