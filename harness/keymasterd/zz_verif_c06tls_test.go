package main

// Real TLS handshakes for C06/C11: the service handlers behind an httptest TLS server whose
// ClientCAs are the keymaster CA and the role-requesting CA, so that r.TLS.VerifiedChains has
// the shape crypto/tls really produces ([leaf, CA]) and r.RemoteAddr is the real peer address.

import (
	"crypto/ecdsa"
	"crypto/elliptic"
	"crypto/rand"
	"crypto/tls"
	"crypto/x509"
	"fmt"
	"io/ioutil"
	"net"
	"net/http"
	"net/http/httptest"
	neturl "net/url"
	"strings"
	"testing"
	"time"

	"github.com/Cloud-Foundations/keymaster/lib/certgen"
	"github.com/Cloud-Foundations/keymaster/lib/instrumentedwriter"
)

type vfTLSRig struct {
	srv     *httptest.Server
	clients map[string]*http.Client
	keyFP   string
}

func vfNewTLSRig(t *testing.T, state *RuntimeState, shapes *vfShapes) *vfTLSRig {
	key, err := ecdsa.GenerateKey(elliptic.P256(), rand.Reader)
	if err != nil {
		t.Fatal(err)
	}
	fp, _ := getKeyFingerprint(key.Public())
	mk := func(der []byte, err error) tls.Certificate {
		if err != nil {
			t.Fatal(err)
		}
		return tls.Certificate{Certificate: [][]byte{der}, PrivateKey: key}
	}
	_, loop, _ := net.ParseCIDR("127.0.0.0/8")
	_, ten, _ := net.ParseCIDR("10.0.0.0/8")
	certs := map[string]tls.Certificate{
		"km": mk(certgen.GenUserX509Cert("alice", key.Public(), shapes.kmCA, shapes.signer, nil, time.Hour, nil, nil, nil, logger)),
		"ipin": mk(certgen.GenIPRestrictedX509Cert("role1", key.Public(), shapes.roleCA, shapes.signer,
			[]net.IPNet{*loop}, time.Hour, nil, nil)),
		"ipout": mk(certgen.GenIPRestrictedX509Cert("role1", key.Public(), shapes.roleCA, shapes.signer,
			[]net.IPNet{*ten}, time.Hour, nil, nil)),
		"foreign": mk(certgen.GenUserX509Cert("alice", key.Public(), shapes.foreignCA, shapes.foreignKey, nil, time.Hour, nil, nil, nil, logger)),
	}
	mux := http.NewServeMux()
	for _, r := range vfRouteTable(state) {
		if r.service {
			mux.HandleFunc(r.path, r.h)
		}
	}
	srv := httptest.NewUnstartedServer(instrumentedwriter.NewLoggingHandler(mux, httpLogger{}))
	pool := x509.NewCertPool()
	pool.AddCert(shapes.kmCA)
	pool.AddCert(shapes.roleCA)
	pool.AddCert(shapes.foreignCA)
	srv.TLS = &tls.Config{ClientCAs: pool, ClientAuth: tls.VerifyClientCertIfGiven, MinVersion: tls.VersionTLS12}
	srv.StartTLS()
	rig := &vfTLSRig{srv: srv, clients: map[string]*http.Client{}, keyFP: fp}
	for name, c := range certs {
		cc := c
		tr := &http.Transport{TLSClientConfig: &tls.Config{InsecureSkipVerify: true, Certificates: []tls.Certificate{cc}},
			DisableKeepAlives: true}
		rig.clients[name] = &http.Client{Transport: tr, CheckRedirect: func(*http.Request, []*http.Request) error { return http.ErrUseLastResponse }}
	}
	rig.clients["none"] = &http.Client{Transport: &http.Transport{TLSClientConfig: &tls.Config{InsecureSkipVerify: true}, DisableKeepAlives: true},
		CheckRedirect: func(*http.Request, []*http.Request) error { return http.ErrUseLastResponse }}
	return rig
}

// probe: POST the route with the given client certificate; `<status> signed=<0|1>`
func (rig *vfTLSRig) probe(t *testing.T, state *RuntimeState, shapes *vfShapes, path, cert string, denied bool) string {
	c := rig.clients[cert]
	if c == nil {
		return "bad-op"
	}
	state.Config.DenyTrustData.KeyDenyFPsshSha256 = nil
	if denied {
		state.Config.DenyTrustData.KeyDenyFPsshSha256 = []string{rig.keyFP}
	}
	state.Config.Base.AllowedAuthBackendsForCerts = []string{"password"}
	state.Config.Base.AllowedAuthBackendsForWebUI = []string{"U2F"}
	url := rig.srv.URL + path
	if strings.HasSuffix(path, "/") && path != "/" {
		url += map[bool]string{true: "role1", false: "alice"}[strings.HasPrefix(cert, "ip")]
	}
	form := neturl.Values{}
	form.Set("pubkey", shapes.b64Pub())
	form.Set("identity", "role1")
	form.Set("requestor_netblock", "10.0.0.0/8")
	form.Set("target_netblock", "10.0.0.0/8")
	var resp *http.Response
	var err error
	if path == "/certgen/" {
		req, _ := createKeyBodyRequest("POST", url+"?type=x509", testUserPEMPublicKey, "")
		resp, err = c.Do(req)
	} else {
		resp, err = c.PostForm(url, form)
	}
	if err != nil {
		return "error " + strings.ReplaceAll(err.Error(), " ", "_")
	}
	defer resp.Body.Close()
	body, _ := ioutil.ReadAll(resp.Body)
	signed := strings.Contains(string(body), "BEGIN CERTIFICATE") || strings.Contains(string(body), "-cert-v01@openssh.com")
	return fmt.Sprintf("%d signed=%s", resp.StatusCode, vfBool(signed))
}
