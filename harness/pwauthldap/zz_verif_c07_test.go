package ldap

// Verification harness for C07 (injected with `go test -overlay`; never committed to /repo).
// Drives the REAL PasswordAuthenticator against in-process LDAPS servers (vfldapsrv) with a
// reference implementation of the signed store behind it (a transcription of the store part of
// KM.PwCache: rows with signed subject/type/expiry, a verifies-flag, an unsigned expiry column,
// primary + cache, outage modes, synchronisation). The real storage is driven by the second
// harness in cmd/keymasterd; the two must produce the same lines for the same ops.

import (
	"bufio"
	"errors"
	"fmt"
	"io/ioutil"
	"math"
	"os"
	"runtime"
	"strconv"
	"strings"
	"sync"
	"testing"
	"time"

	"github.com/Cloud-Foundations/keymaster/lib/authutil"
	"github.com/Cloud-Foundations/keymaster/lib/vfldapsrv"
)

var vf07Names = []string{"alice", "bob", "carol"}

func vf07Password(id int) string {
	if id == 0 {
		return ""
	}
	return fmt.Sprintf("pw-%d-correct horse", id)
}

type vf07Rec struct {
	subject   string
	hash      string
	signedExp int64 // virtual epoch seconds
	typ       int
	sigOK     bool
	columnExp int64
}

type vf07Store struct {
	primary, cache map[string]*vf07Rec
	prim           string
	skew           int64
	vault          map[int]*vf07Rec
	pwOf           map[string]int
	hint           int
}

func vf07NewStore() *vf07Store {
	return &vf07Store{primary: map[string]*vf07Rec{}, cache: map[string]*vf07Rec{}, prim: "up",
		vault: map[int]*vf07Rec{}, pwOf: map[string]int{}}
}

func (s *vf07Store) now() int64 { return time.Now().Unix() + s.skew }

func (s *vf07Store) GetSigned(key string, dataType int) (bool, string, error) {
	if dataType != passwordDataType {
		return false, "", nil
	}
	row := s.primary[key]
	if s.prim != "up" {
		row = s.cache[key]
	}
	if row == nil || row.columnExp <= s.now() {
		return false, "", nil
	}
	if !row.sigOK {
		return false, "", errors.New("signature does not verify")
	}
	if row.subject != key {
		return false, "", errors.New("inconsistent data coming from DB")
	}
	if row.typ != dataType {
		return false, "", errors.New("inconsistent data type coming from DB")
	}
	if row.signedExp < s.now() {
		return false, "", errors.New("expired signed data coming from DB")
	}
	return true, row.hash, nil
}

func (s *vf07Store) UpsertSigned(key string, dataType int, expiration int64, data string) error {
	if s.prim == "down" {
		return errors.New("primary unreachable")
	}
	if dataType != passwordDataType {
		return nil
	}
	s.primary[key] = &vf07Rec{subject: key, hash: data, signedExp: expiration + s.skew, typ: dataType, sigOK: true,
		columnExp: expiration + s.skew}
	return nil
}

func (s *vf07Store) DeleteSigned(key string, dataType int) error {
	if s.prim == "down" {
		return errors.New("primary unreachable")
	}
	if dataType == passwordDataType {
		delete(s.primary, key)
	}
	return nil
}

func (s *vf07Store) sync() {
	if s.prim == "down" {
		return
	}
	s.cache = map[string]*vf07Rec{}
	for k, r := range s.primary {
		if r.columnExp > s.now() {
			c := *r
			s.cache[k] = &c
		}
	}
}

// pwID identifies which password a stored Argon2 hash matches (9: none of ours). The password of
// the login that has just run is tried first; results are remembered per hash string.
func (s *vf07Store) pwID(hash string) int {
	if id, ok := s.pwOf[hash]; ok {
		return id
	}
	id := 9
	order := []int{s.hint}
	for k := 0; k <= 5; k++ {
		if k != s.hint {
			order = append(order, k)
		}
	}
	for _, k := range order {
		if authutil.Argon2CompareHashAndPassword(hash, []byte(vf07Password(k))) == nil {
			id = k
			break
		}
	}
	s.pwOf[hash] = id
	return id
}

func vf07RelH(now, x int64) int64 { return int64(math.Floor(float64(x-now)/3600.0 + 0.5)) }

func vf07Subject(name string) int {
	for i, n := range vf07Names {
		if n == name {
			return i
		}
	}
	return 9
}

func (s *vf07Store) rowStr(r *vf07Rec) string {
	if r == nil {
		return "-"
	}
	ok := "0"
	if r.sigOK {
		ok = "1"
	}
	now := s.now()
	return fmt.Sprintf("s%d:p%d:t%d:v%s:e%d:c%d", vf07Subject(r.subject), s.pwID(r.hash), r.typ, ok,
		vf07RelH(now, r.signedExp), vf07RelH(now, r.columnExp))
}

func (s *vf07Store) rows() string {
	return fmt.Sprintf("%s %s %s %s", s.rowStr(s.primary["alice"]), s.rowStr(s.cache["alice"]),
		s.rowStr(s.primary["bob"]), s.rowStr(s.cache["bob"]))
}

func (s *vf07Store) table(t string) map[string]*vf07Rec {
	if t == "p" {
		return s.primary
	}
	if t == "c" {
		return s.cache
	}
	return nil
}

type vf07IO struct {
	ops []string
	out *bufio.Writer
	f   *os.File
}

func vf07Open(t *testing.T) *vf07IO {
	opsPath, outPath := os.Getenv("VERIF_OPS"), os.Getenv("VERIF_OUT")
	if opsPath == "" || outPath == "" {
		t.Skip("VERIF_OPS / VERIF_OUT not set")
	}
	data, err := ioutil.ReadFile(opsPath)
	if err != nil {
		t.Fatal(err)
	}
	f, err := os.Create(outPath)
	if err != nil {
		t.Fatal(err)
	}
	return &vf07IO{ops: strings.Split(strings.TrimRight(string(data), "\n"), "\n"), out: bufio.NewWriter(f), f: f}
}

func (v *vf07IO) emit(format string, args ...interface{}) {
	fmt.Fprintf(v.out, format+"\n", args...)
	v.out.Flush()
}

// vf07Worker interprets the op lines of whole sequences with its own servers, store and
// authenticator; out[i] answers lines[i].
func vf07Worker(t *testing.T, lines []string) (out []string) {
	out = make([]string, len(lines))
	for i := range out {
		out[i] = "not-run"
	}
	cluster, err := vfldapsrv.Start(2)
	if err != nil {
		t.Error(err)
		return
	}
	var store *vf07Store
	var authn *PasswordAuthenticator
	atoi := func(s string) (int, bool) { n, err := strconv.Atoi(s); return n, err == nil }
	for li, line := range lines {
		f := strings.Fields(line)
		if len(f) == 0 || (f[0] != "seq" && store == nil) {
			out[li] = "bad-op"
			continue
		}
		bad := false
		res := "-"
		trace := "-"
		switch {
		case f[0] == "seq" && len(f) == 2:
			cluster.Reset()
			cluster.SetPassword("alice", vf07Password(1), true)
			cluster.SetPassword("bob", vf07Password(2), true)
			store = vf07NewStore()
			authn, err = New(cluster.URLs(), []string{vfldapsrv.BindPattern}, vfldapsrv.ClientTimeoutSecs, cluster.RootCAs, store, nil)
			if err != nil {
				t.Error(err)
				return
			}
		case f[0] == "pats" && len(f) >= 1:
			// the configured bind patterns change: a new authenticator over the same store
			pats, ok := vfldapsrv.Patterns(f[1:])
			if !ok {
				bad = true
				break
			}
			authn, err = New(cluster.URLs(), pats, vfldapsrv.ClientTimeoutSecs, cluster.RootCAs, store, nil)
			if err != nil {
				t.Error(err)
				return
			}
		case f[0] == "login" && len(f) == 4:
			u, ok1 := atoi(f[1])
			pw, ok2 := atoi(f[2])
			if !ok1 || !ok2 || u < 0 || u > 2 || pw < 0 || pw > 5 {
				bad = true
				break
			}
			cluster.TakeTrace()
			store.hint = pw
			valid, err := authn.PasswordAuthenticate(vf07Names[u], []byte(vf07Password(pw)))
			trace = cluster.TakeTrace()
			switch {
			case err != nil:
				res = "E"
			case valid:
				res = "A"
			default:
				res = "R"
			}
		case f[0] == "srv" && len(f) == 3:
			i, ok := atoi(f[1])
			bad = !ok || !cluster.SetStatus(i, f[2])
		case f[0] == "chpw" && len(f) == 3:
			u, ok := atoi(f[1])
			if !ok || u < 0 || u > 2 {
				bad = true
				break
			}
			if f[2] == "-" {
				cluster.SetPassword(vf07Names[u], "", false)
			} else if pw, ok := atoi(f[2]); ok && pw >= 0 && pw <= 5 {
				cluster.SetPassword(vf07Names[u], vf07Password(pw), true)
			} else {
				bad = true
			}
		case f[0] == "acct" && len(f) == 3:
			u, ok := atoi(f[1])
			if !ok || u < 0 || u > 2 || !strings.Contains(" ok 530 531 532 533 701 773 775 ", " "+f[2]+" ") {
				bad = true
				break
			}
			cluster.SetAccount(vf07Names[u], f[2])
		case f[0] == "diag" && len(f) == 2:
			bad = !cluster.SetDiag(f[1])
		case f[0] == "anon" && len(f) == 2 && (f[1] == "0" || f[1] == "1"):
			cluster.SetAnon(f[1] == "1")
		case f[0] == "adv" && len(f) == 2:
			h, ok := atoi(f[1])
			if !ok || h < 0 {
				bad = true
				break
			}
			store.skew += int64(h) * 3600
		case f[0] == "prim" && len(f) == 2 && (f[1] == "up" || f[1] == "slow" || f[1] == "down"):
			store.prim = f[1]
		case f[0] == "sync" && len(f) == 1:
			store.sync()
		case f[0] == "tamper" && len(f) >= 4:
			tb := store.table(f[1])
			u, ok := atoi(f[2])
			if tb == nil || !ok || u < 0 || u > 1 {
				bad = true
				break
			}
			name := vf07Names[u]
			arg := func(i int) (int, bool) {
				if len(f) <= i {
					return 0, false
				}
				return atoi(f[i])
			}
			switch f[3] {
			case "del":
				delete(tb, name)
			case "colexp":
				h, ok := arg(4)
				if !ok {
					bad = true
				} else if r := tb[name]; r != nil {
					r.columnExp = store.now() + int64(h)*3600
				}
			case "foreign", "other":
				pw, ok1 := arg(4)
				h, ok2 := arg(5)
				if !ok1 || !ok2 || pw < 0 || pw > 5 {
					bad = true
					break
				}
				hash, err := authutil.Argon2MakeNewHash([]byte(vf07Password(pw)))
				if err != nil {
					t.Error(err)
					return
				}
				store.pwOf[hash] = pw
				exp := store.now() + int64(h)*3600
				r := &vf07Rec{subject: name, hash: hash, signedExp: exp, typ: passwordDataType, sigOK: false, columnExp: exp}
				if f[3] == "other" {
					r.typ = passwordDataType + 1
					r.sigOK = true
				}
				tb[name] = r
			case "save":
				slot, ok := arg(4)
				if !ok {
					bad = true
				} else if r := tb[name]; r != nil {
					c := *r
					store.vault[slot] = &c
				} else {
					delete(store.vault, slot)
				}
			case "restore":
				slot, ok := arg(4)
				if !ok {
					bad = true
				} else if r := store.vault[slot]; r != nil {
					c := *r
					tb[name] = &c
				}
			default:
				bad = true
			}
		default:
			bad = true
		}
		if bad {
			out[li] = "bad-op"
			continue
		}
		out[li] = fmt.Sprintf("%s %s %s", res, trace, store.rows())
	}
	return out
}

// vf07Split cuts the op lines into at most n runs of whole sequences (a sequence starts at `seq`).
func vf07Split(lines []string, n int) [][2]int {
	var starts []int
	for i, l := range lines {
		if i == 0 || strings.HasPrefix(l, "seq ") {
			starts = append(starts, i)
		}
	}
	if n > len(starts) {
		n = len(starts)
	}
	var parts [][2]int
	for k := 0; k < n; k++ {
		a := starts[k*len(starts)/n]
		b := len(lines)
		if k+1 < n {
			b = starts[(k+1)*len(starts)/n]
		}
		parts = append(parts, [2]int{a, b})
	}
	return parts
}

// TestVerifC07 — op language and output format: see lean/KM/Driver/C07.lean. Sequences are
// independent, so they are spread over a few workers (Argon2 dominates the run time).
func TestVerifC07(t *testing.T) {
	vio := vf07Open(t)
	defer func() { vio.out.Flush(); vio.f.Close() }()
	workers := runtime.NumCPU() / 2
	if workers < 1 {
		workers = 1
	}
	if workers > 8 {
		workers = 8
	}
	parts := vf07Split(vio.ops, workers)
	outs := make([][]string, len(parts))
	var wg sync.WaitGroup
	for k, p := range parts {
		wg.Add(1)
		go func(k int, a, b int) {
			defer wg.Done()
			defer func() {
				if r := recover(); r != nil {
					t.Errorf("worker %d panicked: %v", k, r)
				}
			}()
			outs[k] = vf07Worker(t, vio.ops[a:b])
		}(k, p[0], p[1])
	}
	wg.Wait()
	for k, p := range parts {
		for i := 0; i < p[1]-p[0]; i++ {
			if outs[k] == nil || i >= len(outs[k]) {
				vio.emit("not-run")
			} else {
				vio.emit("%s", outs[k][i])
			}
		}
	}
}
