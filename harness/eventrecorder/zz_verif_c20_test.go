package eventrecorder

import (
	"fmt"
	"os"
	"path/filepath"
	"sort"
	"strconv"
	"strings"
	"testing"
	"time"
)

// TestVerifC20: the real recordEvent / getEventsList / saveEvents / loadEvents /
// expireOldEvents driven by op lines (stream `r` of the C20 driver).
//
//	r base                               -> base <unix seconds captured at start>
//	r reset                              -> reset (fresh recorder, no file)
//	r rec <user> auth <authType> <vip> <age>
//	r rec <user> sp <hex url> <age>
//	r rec <user> web <age>
//	r rec <user> cert ssh|x509 <lifetime ms> <age>  -> ok <CreateTime> <LifetimeSeconds>
//	                                     (the event is recorded by the real code, then its
//	                                      CreateTime is set to base-<age>: shifting the stored
//	                                      time backwards stands for advancing the clock; the
//	                                      model is given the CreateTime reported here)
//	r snap                               -> snap {<user>=<newest→older>/<oldest→newer>}
//	r save                               -> saved
//	r load -                             -> loaded now=<unix second loadEvents ran in>
//	r expire -                           -> expired <changed> now=<unix second>
func TestVerifC20(t *testing.T) {
	io := vfOpen(t)
	defer io.close()
	dir, err := os.MkdirTemp("", "vfer")
	if err != nil {
		t.Fatal(err)
	}
	defer os.RemoveAll(dir)
	filename := filepath.Join(dir, "events.gob")
	sr := &EventRecorder{filename: filename, eventsMap: make(map[string]*eventsListType)}
	base := time.Now().Unix()
	for _, line := range io.ops {
		f := strings.Fields(line)
		if len(f) < 2 || f[0] != "r" {
			io.emit("bad-op")
			continue
		}
		f = f[1:]
		switch f[0] {
		case "base":
			io.emit("base %d", base)
		case "reset":
			os.Remove(filename)
			sr = &EventRecorder{filename: filename, eventsMap: make(map[string]*eventsListType)}
			io.emit("reset")
		case "rec":
			io.emit("%s", vfRec(sr, f[1:], base))
		case "snap":
			io.emit("%s", vfSnap(sr))
		case "save":
			var last *Events
			if err := saveEvents(filename, sr.getEventsList(&last).Events); err != nil {
				io.emit("error %v", err)
			} else {
				io.emit("saved")
			}
		case "load":
			// what newEventRecorder does at start-up
			var now int64
			var m map[string]*eventsListType
			var err error
			for try := 0; try < 20; try++ {
				vfAwayFromSecondBoundary()
				now = time.Now().Unix()
				m, err = loadEvents(filename)
				if time.Now().Unix() == now {
					break
				}
			}
			if err != nil && !os.IsNotExist(err) {
				io.emit("error %v", err)
				continue
			}
			sr = &EventRecorder{filename: filename, eventsMap: m}
			io.emit("loaded now=%d", now)
		case "expire":
			vfAwayFromSecondBoundary()
			now := time.Now().Unix()
			changed := sr.expireOldEvents()
			if time.Now().Unix() != now {
				io.emit("expired %s now=ambiguous", vfBool(changed))
			} else {
				io.emit("expired %s now=%d", vfBool(changed), now)
			}
		default:
			io.emit("bad-op")
		}
	}
}

func vfAwayFromSecondBoundary() {
	if ns := time.Now().Nanosecond(); ns > 850000000 {
		time.Sleep(time.Duration(1000000000-ns) + time.Millisecond)
	}
}

func vfRec(sr *EventRecorder, f []string, base int64) string {
	if len(f) < 3 {
		return "bad-op"
	}
	user := f[0]
	age, err := strconv.ParseInt(f[len(f)-1], 10, 64)
	if err != nil || age > base {
		return "bad-op"
	}
	ct := uint64(base - age)
	switch {
	case f[1] == "auth" && len(f) == 5:
		a, e1 := strconv.ParseUint(f[2], 10, 32)
		v, e2 := strconv.ParseUint(f[3], 10, 8)
		if e1 != nil || e2 != nil {
			return "bad-op"
		}
		sr.recordAuthEvent(user, uint(a), uint8(v))
	case f[1] == "sp" && len(f) == 4:
		url, ok := vfUnhex(f[2])
		if !ok {
			return "bad-op"
		}
		sr.recordSPLoginEvent(user, url)
	case f[1] == "web" && len(f) == 3:
		sr.recordWebLoginEvent(user)
	case f[1] == "cert" && len(f) == 5 && (f[2] == "ssh" || f[2] == "x509"):
		ms, err := strconv.ParseInt(f[3], 10, 64)
		if err != nil || ms < 0 {
			return "bad-op"
		}
		sr.recordCertEvent(user, time.Duration(ms)*time.Millisecond, f[2] == "ssh", f[2] == "x509")
	default:
		return "bad-op"
	}
	ev := sr.eventsMap[user].newest
	ev.CreateTime = ct
	return fmt.Sprintf("ok %d %d", ev.CreateTime, ev.LifetimeSeconds)
}

func vfEv(e *eventType) string {
	return fmt.Sprintf("%d.%d.%d.%s.%s.%s.%s.%d", e.AuthType, e.CreateTime, e.LifetimeSeconds,
		vfHex(e.ServiceProviderUrl), vfBool(e.Ssh), vfBool(e.WebLogin), vfBool(e.X509), e.VIPAuthType)
}

func vfJoin(l []string) string {
	if len(l) == 0 {
		return "-"
	}
	return strings.Join(l, "|")
}

// vfSnap walks every list in both pointer directions (bounded, so that a cyclic
// or inconsistent list shows up as a difference instead of a hang).
func vfSnap(sr *EventRecorder) string {
	var users []string
	for u := range sr.eventsMap {
		users = append(users, u)
	}
	sort.Strings(users)
	out := []string{"snap"}
	// the snapshot the daemon itself would save must agree with the `older` walk
	var last *Events
	saved := sr.getEventsList(&last).Events
	for _, u := range users {
		l := sr.eventsMap[u]
		var fn, fo []string
		n := 0
		for e := l.newest; e != nil && n < 100000; e = e.older {
			fn = append(fn, vfEv(e))
			n++
		}
		n = 0
		for e := l.oldest; e != nil && n < 100000; e = e.newer {
			fo = append(fo, vfEv(e))
			n++
		}
		var sv []string
		for i := range saved[u] {
			sv = append(sv, vfEv(&eventType{EventType: saved[u][i]}))
		}
		tok := u + "=" + vfJoin(fn) + "/" + vfJoin(fo)
		if vfJoin(sv) != vfJoin(fn) {
			tok += "!getEventsList=" + vfJoin(sv)
		}
		out = append(out, tok)
	}
	return strings.Join(out, " ")
}
