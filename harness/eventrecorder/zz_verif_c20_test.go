package eventrecorder

import (
	"crypto/x509"
	"crypto/x509/pkix"
	"flag"
	"fmt"
	"os"
	"path/filepath"
	"sort"
	"strconv"
	"strings"
	"testing"
	"time"

	"github.com/Cloud-Foundations/golib/pkg/log/nulllogger"
	"golang.org/x/crypto/ssh"
)

// TestVerifC20: the real recordEvent / getEventsList / saveEvents / loadEvents /
// expireOldEvents driven by op lines (stream `r` of the C20 driver).
//
//	r base                               -> base <unix seconds captured at start>
//	r reset                              -> reset (fresh recorder, no file)
//	r rec <user> auth <authType> <vip> <age>
//	r rec <user> sp <hex url> <age>
//	r rec <user> web <age>
//	r rec <user> cert ssh|x509 <lifetime ms> <age>  -> ok <CreateTime> <LifetimeSeconds>
//	                                     (the event is recorded by the real code, then its
//	                                      CreateTime is set to base-<age>: shifting the stored
//	                                      time backwards stands for advancing the clock; the
//	                                      model is given the CreateTime reported here)
//	r snap                               -> snap {<user>=<newest→older>/<oldest→newer>}
//	r save                               -> saved
//	r load -                             -> loaded now=<unix second loadEvents ran in>
//	r expire -                           -> expired <changed> now=<unix second>
func TestVerifC20(t *testing.T) {
	io := vfOpen(t)
	defer io.close()
	dir, err := os.MkdirTemp("", "vfer")
	if err != nil {
		t.Fatal(err)
	}
	defer os.RemoveAll(dir)
	filename := filepath.Join(dir, "events.gob")
	sr := &EventRecorder{filename: filename, eventsMap: make(map[string]*eventsListType)}
	base := time.Now().Unix()
	loop := &vfLoop{dir: dir, base: base, recs: map[string]*EventRecorder{}}
	for _, line := range io.ops {
		f := strings.Fields(line)
		if len(f) >= 2 && f[0] == "l" {
			io.emit("%s", loop.op(f[1:]))
			continue
		}
		if len(f) < 2 || f[0] != "r" {
			io.emit("bad-op")
			continue
		}
		f = f[1:]
		switch f[0] {
		case "base":
			io.emit("base %d", base)
		case "reset":
			os.Remove(filename)
			sr = &EventRecorder{filename: filename, eventsMap: make(map[string]*eventsListType)}
			io.emit("reset")
		case "scaleflag":
			// r scaleflag <name> <factor>: a command-line option of this package, moved away from its default
			if len(f) != 3 {
				io.emit("bad-op")
				continue
			}
			io.emit("%s", vfScaleFlag(f[1], f[2]))
		case "rec":
			io.emit("%s", vfRec(sr, f[1:], base))
		case "snap":
			io.emit("%s", vfSnap(sr))
		case "save":
			var last *Events
			if err := saveEvents(filename, sr.getEventsList(&last).Events); err != nil {
				io.emit("error %v", err)
			} else {
				io.emit("saved")
			}
		case "load":
			// what newEventRecorder does at start-up
			var now int64
			var m map[string]*eventsListType
			var err error
			for try := 0; try < 20; try++ {
				vfAwayFromSecondBoundary()
				now = time.Now().Unix()
				m, err = loadEvents(filename)
				if time.Now().Unix() == now {
					break
				}
			}
			if err != nil && !os.IsNotExist(err) {
				io.emit("error %v", err)
				continue
			}
			sr = &EventRecorder{filename: filename, eventsMap: m}
			io.emit("loaded now=%d", now)
		case "expire":
			vfAwayFromSecondBoundary()
			now := time.Now().Unix()
			changed := sr.expireOldEvents()
			if time.Now().Unix() != now {
				io.emit("expired %s now=ambiguous", vfBool(changed))
			} else {
				io.emit("expired %s now=%d", vfBool(changed), now)
			}
		default:
			io.emit("bad-op")
		}
	}
}

func vfAwayFromSecondBoundary() {
	if ns := time.Now().Nanosecond(); ns > 850000000 {
		time.Sleep(time.Duration(1000000000-ns) + time.Millisecond)
	}
}

func vfRec(sr *EventRecorder, f []string, base int64) string {
	if len(f) < 3 {
		return "bad-op"
	}
	user := f[0]
	age, err := strconv.ParseInt(f[len(f)-1], 10, 64)
	if err != nil || age > base {
		return "bad-op"
	}
	ct := uint64(base - age)
	switch {
	case f[1] == "auth" && len(f) == 5:
		a, e1 := strconv.ParseUint(f[2], 10, 32)
		v, e2 := strconv.ParseUint(f[3], 10, 8)
		if e1 != nil || e2 != nil {
			return "bad-op"
		}
		sr.recordAuthEvent(user, uint(a), uint8(v))
	case f[1] == "sp" && len(f) == 4:
		url, ok := vfUnhex(f[2])
		if !ok {
			return "bad-op"
		}
		sr.recordSPLoginEvent(user, url)
	case f[1] == "web" && len(f) == 3:
		sr.recordWebLoginEvent(user)
	case f[1] == "cert" && len(f) == 5 && (f[2] == "ssh" || f[2] == "x509"):
		ms, err := strconv.ParseInt(f[3], 10, 64)
		if err != nil || ms < 0 {
			return "bad-op"
		}
		sr.recordCertEvent(user, time.Duration(ms)*time.Millisecond, f[2] == "ssh", f[2] == "x509")
	default:
		return "bad-op"
	}
	ev := sr.eventsMap[user].newest
	ev.CreateTime = ct
	return fmt.Sprintf("ok %d %d", ev.CreateTime, ev.LifetimeSeconds)
}

func vfEv(e *eventType) string {
	return fmt.Sprintf("%d.%d.%d.%s.%s.%s.%s.%d", e.AuthType, e.CreateTime, e.LifetimeSeconds,
		vfHex(e.ServiceProviderUrl), vfBool(e.Ssh), vfBool(e.WebLogin), vfBool(e.X509), e.VIPAuthType)
}

func vfJoin(l []string) string {
	if len(l) == 0 {
		return "-"
	}
	return strings.Join(l, "|")
}

// vfSnap walks every list in both pointer directions (bounded, so that a cyclic
// or inconsistent list shows up as a difference instead of a hang).
func vfSnap(sr *EventRecorder) string {
	var users []string
	for u := range sr.eventsMap {
		users = append(users, u)
	}
	sort.Strings(users)
	out := []string{"snap"}
	// the snapshot the daemon itself would save must agree with the `older` walk
	var last *Events
	saved := sr.getEventsList(&last).Events
	for _, u := range users {
		l := sr.eventsMap[u]
		var fn, fo []string
		n := 0
		for e := l.newest; e != nil && n < 100000; e = e.older {
			fn = append(fn, vfEv(e))
			n++
		}
		n = 0
		for e := l.oldest; e != nil && n < 100000; e = e.newer {
			fo = append(fo, vfEv(e))
			n++
		}
		var sv []string
		for i := range saved[u] {
			sv = append(sv, vfEv(&eventType{EventType: saved[u][i]}))
		}
		tok := u + "=" + vfJoin(fn) + "/" + vfJoin(fo)
		if vfJoin(sv) != vfJoin(fn) {
			tok += "!getEventsList=" + vfJoin(sv)
		}
		out = append(out, tok)
	}
	return strings.Join(out, " ")
}

// vfLoop drives the REAL event loop (stream `l` of the C20 driver): recorders made by
// newEventRecorder, fed through their public channels, queried through RequestEventsChannel like
// the activity page does, left alone until the deferred save has run, and "restarted" by building
// a new recorder over the same file.
//
//	l new <sid>                         -> new
//	l rec <sid> <user> auth <type> <vip> | sp <hex url> | web | cert ssh|x509 <hours>   -> ok
//	l query <sid>                       -> q {<user>=<events newest first>}   (CreateTime printed as the run's base second)
//	l wait <ms>                         -> waited        (one shared wait for the save timers of all recorders)
//	l restart <sid>                     -> restarted now=<unix>
type vfLoop struct {
	dir  string
	base int64
	recs map[string]*EventRecorder
}

func (l *vfLoop) file(sid string) string { return filepath.Join(l.dir, "loop-"+sid+".gob") }

// settle: the loop goroutine takes its inputs from several channels; give it time to consume what
// was just sent so that the order of the ops is the order of the effects.
func vfSettle(n func() int) {
	for i := 0; i < 5000 && n() > 0; i++ {
		time.Sleep(100 * time.Microsecond)
	}
	time.Sleep(2 * time.Millisecond)
}

func (l *vfLoop) op(f []string) string {
	switch {
	case f[0] == "base" && len(f) == 1:
		return fmt.Sprintf("base %d", l.base)
	case f[0] == "new" && len(f) == 2:
		os.Remove(l.file(f[1]))
		sr, err := newEventRecorder(l.file(f[1]), nulllogger.New())
		if err != nil {
			return "error " + vfHex(err.Error())
		}
		l.recs[f[1]] = sr
		return "new"
	case f[0] == "rec" && len(f) >= 4:
		sr := l.recs[f[1]]
		if sr == nil {
			return "bad-op"
		}
		user := f[2]
		switch {
		case f[3] == "auth" && len(f) == 6:
			a, e1 := strconv.ParseUint(f[4], 10, 32)
			v, e2 := strconv.ParseUint(f[5], 10, 8)
			if e1 != nil || e2 != nil {
				return "bad-op"
			}
			sr.AuthChannel <- &AuthInfo{AuthType: uint(a), Username: user, VIPAuthType: uint8(v)}
			vfSettle(func() int { return len(sr.AuthChannel) })
		case f[3] == "sp" && len(f) == 5:
			url, ok := vfUnhex(f[4])
			if !ok {
				return "bad-op"
			}
			sr.ServiceProviderLoginChannel <- &SPLoginInfo{URL: url, Username: user}
			vfSettle(func() int { return len(sr.ServiceProviderLoginChannel) })
		case f[3] == "web" && len(f) == 4:
			sr.WebLoginChannel <- user
			vfSettle(func() int { return len(sr.WebLoginChannel) })
		case f[3] == "cert" && len(f) == 6 && (f[4] == "ssh" || f[4] == "x509"):
			hours, err := strconv.Atoi(f[5])
			if err != nil || hours < 1 {
				return "bad-op"
			}
			until := time.Now().Add(time.Duration(hours) * time.Hour)
			if f[4] == "ssh" {
				sr.SshCertChannel <- &ssh.Certificate{ValidPrincipals: []string{user}, ValidBefore: uint64(until.Unix())}
				vfSettle(func() int { return len(sr.SshCertChannel) })
			} else {
				sr.X509CertChannel <- &x509.Certificate{Subject: pkix.Name{CommonName: user}, NotAfter: until}
				vfSettle(func() int { return len(sr.X509CertChannel) })
			}
		default:
			return "bad-op"
		}
		return "ok"
	case f[0] == "query" && len(f) == 2:
		sr := l.recs[f[1]]
		if sr == nil {
			return "bad-op"
		}
		// the exchange of eventmon/httpd showActivity
		reply := make(chan Events, 1)
		sr.RequestEventsChannel <- reply
		var evs Events
		select {
		case evs = <-reply:
		case <-time.After(10 * time.Second):
			return "no-reply"
		}
		var users []string
		for u := range evs.Events {
			users = append(users, u)
		}
		sort.Strings(users)
		out := []string{"q"}
		now := time.Now().Unix()
		for _, u := range users {
			var l2 []string
			for i := range evs.Events[u] {
				e := evs.Events[u][i]
				if int64(e.CreateTime) >= l.base-2 && int64(e.CreateTime) <= now+1 {
					e.CreateTime = uint64(l.base)
				}
				l2 = append(l2, vfEv(&eventType{EventType: e}))
			}
			out = append(out, u+"="+vfJoin(l2))
		}
		return strings.Join(out, " ")
	case f[0] == "wait" && len(f) == 2:
		ms, err := strconv.Atoi(f[1])
		if err != nil || ms > 20000 {
			return "bad-op"
		}
		time.Sleep(time.Duration(ms) * time.Millisecond)
		return "waited"
	case f[0] == "restart" && len(f) == 2:
		if l.recs[f[1]] == nil {
			return "bad-op"
		}
		// the old recorder's goroutine stays behind; the generator only restarts when it has no
		// save pending, so it never touches the file again
		now := time.Now().Unix()
		sr, err := newEventRecorder(l.file(f[1]), nulllogger.New())
		if err != nil {
			return "error " + vfHex(err.Error())
		}
		l.recs[f[1]] = sr
		return fmt.Sprintf("restarted now=%d", now)
	}
	return "bad-op"
}

func vfScaleFlag(name, factorStr string) string {
	fl := flag.Lookup(name)
	factor, err := strconv.Atoi(factorStr)
	if fl == nil || err != nil {
		return "no-such-flag"
	}
	if d, err := time.ParseDuration(fl.DefValue); err == nil && d > 0 {
		nv := (d * time.Duration(factor)).String()
		if err := flag.Set(name, nv); err != nil {
			return "set-failed"
		}
		return fmt.Sprintf("flag %s %s -> %s", name, fl.DefValue, nv)
	}
	if n, err := strconv.ParseInt(fl.DefValue, 10, 64); err == nil && n > 0 {
		nv := strconv.FormatInt(n*int64(factor), 10)
		if err := flag.Set(name, nv); err != nil {
			return "set-failed"
		}
		return fmt.Sprintf("flag %s %s -> %s", name, fl.DefValue, nv)
	}
	return "skipped " + name
}
