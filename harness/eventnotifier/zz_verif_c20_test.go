package eventnotifier

import (
	"bufio"
	"encoding/hex"
	"encoding/json"
	"fmt"
	"io"
	"net"
	"net/http"
	"net/http/httptest"
	"net/url"
	"reflect"
	"sort"
	"strconv"
	"strings"
	"sync"
	"testing"
	"time"

	"github.com/Cloud-Foundations/golib/pkg/log/testlogger"
	"github.com/Cloud-Foundations/keymaster/proto/eventmon"
)

// TestVerifC20 drives the real EventNotifier (stream `n` of the C20 driver).
//
// Subscriber kinds:
//
//	gated  handleConnection on an in-memory connection whose writes are held until `release`
//	free   handleConnection on an in-memory connection that accepts every write at once
//	tcp    the real ServeHTTP: CONNECT /eventmon/v0 over TCP exactly as eventmon/monitord
//	       does it, with a client goroutine that decodes the JSON stream
//	stall  like tcp, but the client never reads (a stalled monitor)
//	pipe   the public API only: ServeHTTP is handed a hijackable ResponseWriter whose connection is an
//	       unbuffered net.Pipe; the client (this harness) reads one message off the wire per `release`,
//	       so the connection handler sits in its write to a momentarily slow monitor while further
//	       events are published. What is reported for this kind is what the CLIENT decoded from the
//	       bytes it read (`#wire=` on close/dump), next to the server-side log every held kind has.
//
// The subscriber channels of the notifier are looked at through reflection (length, capacity, identity):
// the harness does not depend on what the notifier queues (events, encoded messages, …).
//
// Ops: sub <id> <kind> | pub ssh|x509 <hex> | pub auth <hex type> <hex user> |
// pub sp <hex url> <hex user> | pub web <hex user> | pub vip <hex type> <hex user> |
// flood <n> <size> | release <id> | close <id> | dump
// Every op answers `box=<publish returned within the time box> {<id>:<len(channel)>:<events taken>}`
// for the subscribers that are not stalled (ascending id).
type vfSub struct {
	id     int
	kind   string
	ch     vfChan
	total  int // events this subscriber's channel accepted so far (harness bookkeeping for settling only)
	gate   *vfGate
	reader *vfReader
	conn   net.Conn
	done   chan struct{}
	mu     sync.Mutex
	got    []string // tcp: decoded by the client
	pipe   *vfPipeConn
	client net.Conn      // pipe: the monitor's end
	cbr    *bufio.Reader // pipe: the monitor's reader
	wire   []byte        // pipe: every byte the monitor has read after the connect message
}

// vfChan is one subscriber channel of the notifier, whatever its element type.
type vfChan struct{ v reflect.Value }

func (c vfChan) ok() bool      { return c.v.IsValid() }
func (c vfChan) id() uintptr   { return c.v.Pointer() }
func (c vfChan) length() int   { return c.v.Len() }
func (c vfChan) capacity() int { return c.v.Cap() }

type vfGate struct {
	mu      sync.Mutex
	cond    *sync.Cond
	open    bool
	permits int
	inWrite bool
	failed  bool
	got     []string
}

func vfCanon(ev eventmon.EventV0) string {
	cd := "-"
	if len(ev.CertData) > 0 {
		cd = hex.EncodeToString(ev.CertData)
	}
	return fmt.Sprintf("%s,%s,%s,%s,%s,%s", ev.Type, cd, vfHex(ev.AuthType), vfHex(ev.ServiceProviderUrl),
		vfHex(ev.Username), vfHex(ev.VIPAuthType))
}

func (g *vfGate) Write(p []byte) (int, error) {
	var ev eventmon.EventV0
	c := "undecodable:" + hex.EncodeToString(p)
	if err := json.Unmarshal(p, &ev); err == nil {
		c = vfCanon(ev)
	}
	g.mu.Lock()
	defer g.mu.Unlock()
	g.got = append(g.got, c)
	g.inWrite = true
	for !g.open && g.permits == 0 && !g.failed {
		g.cond.Wait()
	}
	g.inWrite = false
	if g.failed {
		return 0, io.ErrClosedPipe
	}
	if !g.open {
		g.permits--
	}
	return len(p), nil
}

type vfReader struct{ closed chan struct{} }

func (r *vfReader) Read(p []byte) (int, error) {
	<-r.closed
	return 0, io.EOF
}

func (s *vfSub) count() (int, bool) {
	if s.gate != nil {
		s.gate.mu.Lock()
		defer s.gate.mu.Unlock()
		return len(s.gate.got), s.gate.inWrite
	}
	s.mu.Lock()
	defer s.mu.Unlock()
	return len(s.got), false
}

func (s *vfSub) events() []string {
	if s.gate != nil {
		s.gate.mu.Lock()
		defer s.gate.mu.Unlock()
		return append([]string(nil), s.gate.got...)
	}
	s.mu.Lock()
	defer s.mu.Unlock()
	return append([]string(nil), s.got...)
}

type vfNotifierHarness struct {
	t    *testing.T
	n    *EventNotifier
	srv  *httptest.Server
	subs map[int]*vfSub
	note string
}

func (h *vfNotifierHarness) channels() map[uintptr]vfChan {
	h.n.mutex.Lock()
	defer h.n.mutex.Unlock()
	m := map[uintptr]vfChan{}
	for _, k := range reflect.ValueOf(h.n.transmitChannels).MapKeys() {
		for k.Kind() == reflect.Interface {
			k = k.Elem()
		}
		if k.Kind() != reflect.Chan {
			continue
		}
		m[k.Pointer()] = vfChan{k}
	}
	return m
}

// waitNewChannel polls until the notifier registered a channel that was not there before.
func (h *vfNotifierHarness) waitNewChannel(before map[uintptr]vfChan) vfChan {
	deadline := time.Now().Add(5 * time.Second)
	for time.Now().Before(deadline) {
		for id, ch := range h.channels() {
			if _, ok := before[id]; !ok {
				return ch
			}
		}
		time.Sleep(200 * time.Microsecond)
	}
	return vfChan{}
}

func (h *vfNotifierHarness) registered(ch vfChan) bool {
	_, ok := h.channels()[ch.id()]
	return ok
}

// vfPipeConn is the server end of a net.Pipe handed out by Hijack. Until the client has read the connect
// message writes pass straight through; after that every write is logged (server-side view, like the gated
// kind) and then goes to the unbuffered pipe, where it stays until the client reads it.
type vfPipeConn struct {
	net.Conn
	g *vfGate
}

func (c *vfPipeConn) Write(p []byte) (int, error) {
	g := c.g
	g.mu.Lock()
	if !g.open { // `open` = connect phase for this kind
		var ev eventmon.EventV0
		s := "undecodable:" + hex.EncodeToString(p)
		if err := json.Unmarshal(p, &ev); err == nil {
			s = vfCanon(ev)
		}
		g.got = append(g.got, s)
		g.inWrite = true
		g.permits = len(p) // bytes the client has to read to let this write return
	}
	armed := !g.open
	g.mu.Unlock()
	n, err := c.Conn.Write(p)
	if armed {
		g.mu.Lock()
		g.inWrite = false
		g.permits = 0
		g.mu.Unlock()
	}
	return n, err
}

// vfHijackWriter is the http.ResponseWriter + http.Hijacker the pipe subscriber hands to ServeHTTP.
type vfHijackWriter struct {
	conn net.Conn
	hdr  http.Header
	code int
}

func (w *vfHijackWriter) Header() http.Header         { return w.hdr }
func (w *vfHijackWriter) Write(p []byte) (int, error) { return len(p), nil }
func (w *vfHijackWriter) WriteHeader(code int)        { w.code = code }
func (w *vfHijackWriter) Hijack() (net.Conn, *bufio.ReadWriter, error) {
	return w.conn, bufio.NewReadWriter(bufio.NewReader(w.conn), bufio.NewWriter(w.conn)), nil
}

// wireEvents decodes everything the pipe client has read so far the way monitord does (a JSON stream).
func (s *vfSub) wireEvents() []string {
	var l []string
	dec := json.NewDecoder(strings.NewReader(string(s.wire)))
	for {
		var ev eventmon.EventV0
		if err := dec.Decode(&ev); err != nil {
			if err != io.EOF {
				l = append(l, "undecodable")
			}
			return l
		}
		l = append(l, vfCanon(ev))
	}
}

func (h *vfNotifierHarness) subscribe(id int, kind string) bool {
	before := h.channels()
	s := &vfSub{id: id, kind: kind, done: make(chan struct{})}
	switch kind {
	case "gated", "free":
		s.gate = &vfGate{open: kind == "free"}
		s.gate.cond = sync.NewCond(&s.gate.mu)
		s.reader = &vfReader{closed: make(chan struct{})}
		rw := bufio.NewReadWriter(bufio.NewReader(s.reader), bufio.NewWriter(s.gate))
		go func() {
			h.n.handleConnection(rw)
			close(s.done)
		}()
	case "pipe":
		srvEnd, cliEnd := net.Pipe()
		s.gate = &vfGate{open: true}
		s.gate.cond = sync.NewCond(&s.gate.mu)
		s.pipe = &vfPipeConn{Conn: srvEnd, g: s.gate}
		s.client = cliEnd
		w := &vfHijackWriter{conn: s.pipe, hdr: http.Header{}}
		req := &http.Request{Method: "CONNECT", URL: &url.URL{Path: eventmon.HttpPath}, Proto: "HTTP/1.0",
			ProtoMajor: 1, Header: http.Header{}, RemoteAddr: "pipe", Host: "pipe"}
		go func() {
			h.n.ServeHTTP(w, req)
			srvEnd.Close()
			close(s.done)
		}()
		s.cbr = bufio.NewReader(cliEnd)
		cliEnd.SetReadDeadline(time.Now().Add(5 * time.Second))
		resp, err := http.ReadResponse(s.cbr, &http.Request{Method: "CONNECT"})
		cliEnd.SetReadDeadline(time.Time{})
		if err != nil || resp.Status != eventmon.ConnectString {
			h.note = fmt.Sprintf("connect (pipe): %v %v code=%d", err, resp, w.code)
			cliEnd.Close()
			srvEnd.Close()
			return false
		}
		s.gate.mu.Lock()
		s.gate.open = false
		s.gate.mu.Unlock()
	case "tcp", "stall":
		conn, err := net.Dial("tcp", h.srv.Listener.Addr().String())
		if err != nil {
			h.note = err.Error()
			return false
		}
		// exactly what eventmon/monitord.connect sends and expects
		io.WriteString(conn, "CONNECT "+eventmon.HttpPath+" HTTP/1.0\n\n")
		br := bufio.NewReader(conn)
		resp, err := http.ReadResponse(br, &http.Request{Method: "CONNECT"})
		if err != nil || resp.Status != eventmon.ConnectString {
			h.note = fmt.Sprintf("connect: %v %v", err, resp)
			conn.Close()
			return false
		}
		s.conn = conn
		if kind == "tcp" {
			go func() {
				dec := json.NewDecoder(br)
				for {
					var ev eventmon.EventV0
					if err := dec.Decode(&ev); err != nil {
						close(s.done)
						return
					}
					s.mu.Lock()
					s.got = append(s.got, vfCanon(ev))
					s.mu.Unlock()
				}
			}()
		}
	default:
		return false
	}
	s.ch = h.waitNewChannel(before)
	if !s.ch.ok() {
		h.note = "subscriber channel never registered"
		return false
	}
	h.subs[id] = s
	return true
}

func (h *vfNotifierHarness) ids() []int {
	var l []int
	for id := range h.subs {
		l = append(l, id)
	}
	sort.Ints(l)
	return l
}

// beforePublish: bookkeeping used only to know when the goroutines have come to rest.
func (h *vfNotifierHarness) beforePublish() {
	for _, s := range h.subs {
		if s.ch.length() < s.ch.capacity() {
			s.total++
		}
	}
}

// settle waits until every reported subscriber's goroutine has nothing left to do on its own.
func (h *vfNotifierHarness) settle() bool {
	deadline := time.Now().Add(5 * time.Second)
	for {
		ok := true
		for _, s := range h.subs {
			if s.kind == "stall" {
				continue
			}
			n, inWrite := s.count()
			l := s.ch.length()
			if n+l != s.total {
				ok = false
			} else if s.kind == "gated" || s.kind == "pipe" {
				if !(inWrite || l == 0) {
					ok = false
				}
			} else if l != 0 {
				ok = false
			}
		}
		if ok {
			return true
		}
		if time.Now().After(deadline) {
			return false
		}
		time.Sleep(100 * time.Microsecond)
	}
}

func (h *vfNotifierHarness) status(box bool) string {
	settled := h.settle()
	out := "box=" + vfBool(box)
	if !settled {
		out = "box=" + vfBool(box) + " UNSETTLED"
	}
	var stall []string
	for _, id := range h.ids() {
		s := h.subs[id]
		if s.kind == "stall" {
			stall = append(stall, fmt.Sprintf("%d:%d", id, s.ch.length()))
			continue
		}
		n, _ := s.count()
		out += fmt.Sprintf(" %d:%d:%d", id, s.ch.length(), n)
	}
	if len(stall) > 0 {
		out += " #stall=" + strings.Join(stall, ",")
	}
	return out
}

func vfBox(f func()) bool {
	done := make(chan struct{})
	go func() {
		f()
		close(done)
	}()
	select {
	case <-done:
		return true
	case <-time.After(3 * time.Second):
		return false
	}
}

func (h *vfNotifierHarness) closeSub(id int) (string, string) {
	s := h.subs[id]
	evs := s.events()
	wire := ""
	if s.pipe != nil {
		wire = " #wire=" + vfJoin(s.wireEvents())
		s.client.Close()
		s.pipe.Conn.Close()
	} else if s.gate != nil {
		s.gate.mu.Lock()
		s.gate.failed = true
		s.gate.cond.Broadcast()
		s.gate.mu.Unlock()
		close(s.reader.closed)
	} else {
		s.conn.Close()
	}
	// wait for handleConnection's deferred delete
	deadline := time.Now().Add(5 * time.Second)
	for h.registered(s.ch) && time.Now().Before(deadline) {
		time.Sleep(200 * time.Microsecond)
	}
	gone := !h.registered(s.ch)
	delete(h.subs, id)
	if s.kind == "stall" {
		if !gone {
			return "closed-not-removed", ""
		}
		return "closed", ""
	}
	l := "-"
	if len(evs) > 0 {
		l = strings.Join(evs, "|")
	}
	if !gone {
		return fmt.Sprintf("closed-not-removed %d=%s", id, l), wire
	}
	return fmt.Sprintf("closed %d=%s", id, l), wire
}

func vfJoin(l []string) string {
	if len(l) == 0 {
		return "-"
	}
	return strings.Join(l, "|")
}

// releasePipe lets the slow monitor read exactly the message its connection handler is trying to write.
func (h *vfNotifierHarness) releasePipe(s *vfSub) {
	s.gate.mu.Lock()
	n := 0
	if s.gate.inWrite {
		n = s.gate.permits
	}
	seq := len(s.gate.got)
	s.gate.mu.Unlock()
	if n == 0 {
		return
	}
	buf := make([]byte, n)
	s.client.SetReadDeadline(time.Now().Add(5 * time.Second))
	m, _ := io.ReadFull(s.cbr, buf)
	s.client.SetReadDeadline(time.Time{})
	s.wire = append(s.wire, buf[:m]...)
	// wait for the write to return so that the next state is well defined
	deadline := time.Now().Add(5 * time.Second)
	for time.Now().Before(deadline) {
		s.gate.mu.Lock()
		// either that write returned, or the handler is already parked in the next one
		done := !s.gate.inWrite || len(s.gate.got) != seq
		s.gate.mu.Unlock()
		if done {
			return
		}
		time.Sleep(50 * time.Microsecond)
	}
}

func TestVerifC20(t *testing.T) {
	io_ := vfOpen(t)
	defer io_.close()
	h := &vfNotifierHarness{t: t, n: New(testlogger.New(t)), subs: map[int]*vfSub{}}
	mux := http.NewServeMux()
	mux.Handle(eventmon.HttpPath, h.n)
	h.srv = httptest.NewServer(mux)
	defer h.srv.Close()
	for _, line := range io_.ops {
		f := strings.Fields(line)
		if len(f) < 2 || f[0] != "n" {
			io_.emit("bad-op")
			continue
		}
		f = f[1:]
		switch {
		case f[0] == "sub" && len(f) == 3:
			id, err := strconv.Atoi(f[1])
			if err != nil || h.subs[id] != nil {
				io_.emit("bad-op")
				continue
			}
			if !h.subscribe(id, f[2]) {
				io_.emit("sub-failed %s", h.note)
				continue
			}
			io_.emit("%s", h.status(true))
		case f[0] == "pub":
			call := vfPubCall(h.n, f[1:])
			if call == nil {
				io_.emit("bad-op")
				continue
			}
			h.beforePublish()
			box := vfBox(call)
			io_.emit("%s", h.status(box))
		case f[0] == "flood" && len(f) == 3:
			n, e1 := strconv.Atoi(f[1])
			size, e2 := strconv.Atoi(f[2])
			if e1 != nil || e2 != nil {
				io_.emit("bad-op")
				continue
			}
			url := strings.Repeat("x", size)
			box := true
			for i := 0; i < n; i++ {
				h.beforePublish()
				if !vfBox(func() { h.n.PublishServiceProviderLoginEvent(url, "flood") }) {
					box = false
				}
				if !h.settle() {
					break
				}
			}
			io_.emit("%s", h.status(box))
		case f[0] == "release" && len(f) == 2:
			id, err := strconv.Atoi(f[1])
			s := h.subs[id]
			if err != nil || s == nil {
				io_.emit("bad-op")
				continue
			}
			if s.pipe != nil {
				h.releasePipe(s)
			} else if s.gate != nil {
				s.gate.mu.Lock()
				if s.gate.inWrite && !s.gate.open {
					s.gate.permits++
					s.gate.cond.Broadcast()
					// wait for the write to return so that the next state is well defined
					for s.gate.permits > 0 {
						s.gate.mu.Unlock()
						time.Sleep(50 * time.Microsecond)
						s.gate.mu.Lock()
					}
				}
				s.gate.mu.Unlock()
			}
			io_.emit("%s", h.status(true))
		case f[0] == "close" && len(f) == 2:
			id, err := strconv.Atoi(f[1])
			if err != nil || h.subs[id] == nil {
				io_.emit("bad-op")
				continue
			}
			res, wire := h.closeSub(id)
			io_.emit("%s %s%s", res, h.status(true), wire)
		case f[0] == "dump":
			out := "dump"
			for _, id := range h.ids() {
				s := h.subs[id]
				if s.kind == "stall" {
					continue
				}
				evs := s.events()
				l := "-"
				if len(evs) > 0 {
					l = strings.Join(evs, "|")
				}
				out += fmt.Sprintf(" %d=%s", id, l)
			}
			io_.emit("%s", out)
		default:
			io_.emit("bad-op")
		}
	}
	for _, id := range h.ids() {
		h.closeSub(id)
	}
}

func vfPubCall(n *EventNotifier, f []string) func() {
	un := func(s string) (string, bool) { return vfUnhex(s) }
	switch {
	case len(f) == 2 && (f[0] == "ssh" || f[0] == "x509"):
		b, ok := un(f[1])
		if !ok {
			return nil
		}
		if f[0] == "ssh" {
			return func() { n.PublishSSH([]byte(b)) }
		}
		return func() { n.PublishX509([]byte(b)) }
	case len(f) == 3 && f[0] == "auth":
		a, ok1 := un(f[1])
		u, ok2 := un(f[2])
		if !ok1 || !ok2 {
			return nil
		}
		return func() { n.PublishAuthEvent(a, u) }
	case len(f) == 3 && f[0] == "sp":
		a, ok1 := un(f[1])
		u, ok2 := un(f[2])
		if !ok1 || !ok2 {
			return nil
		}
		return func() { n.PublishServiceProviderLoginEvent(a, u) }
	case len(f) == 2 && f[0] == "web":
		u, ok := un(f[1])
		if !ok {
			return nil
		}
		return func() { n.PublishWebLoginEvent(u) }
	case len(f) == 3 && f[0] == "vip":
		a, ok1 := un(f[1])
		u, ok2 := un(f[2])
		if !ok1 || !ok2 {
			return nil
		}
		return func() { n.PublishVIPAuthEvent(a, u) }
	}
	return nil
}
