package eventnotifier

import (
	"bufio"
	"encoding/hex"
	"encoding/json"
	"fmt"
	"io"
	"net"
	"net/http"
	"net/http/httptest"
	"sort"
	"strconv"
	"strings"
	"sync"
	"testing"
	"time"

	"github.com/Cloud-Foundations/golib/pkg/log/testlogger"
	"github.com/Cloud-Foundations/keymaster/proto/eventmon"
)

// TestVerifC20 drives the real EventNotifier (stream `n` of the C20 driver).
//
// Subscriber kinds:
//
//	gated  handleConnection on an in-memory connection whose writes are held until `release`
//	free   handleConnection on an in-memory connection that accepts every write at once
//	tcp    the real ServeHTTP: CONNECT /eventmon/v0 over TCP exactly as eventmon/monitord
//	       does it, with a client goroutine that decodes the JSON stream
//	stall  like tcp, but the client never reads (a stalled monitor)
//
// Ops: sub <id> <kind> | pub ssh|x509 <hex> | pub auth <hex type> <hex user> |
// pub sp <hex url> <hex user> | pub web <hex user> | pub vip <hex type> <hex user> |
// flood <n> <size> | release <id> | close <id> | dump
// Every op answers `box=<publish returned within the time box> {<id>:<len(channel)>:<events taken>}`
// for the subscribers that are not stalled (ascending id).
type vfSub struct {
	id     int
	kind   string
	ch     chan<- eventmon.EventV0
	total  int // events this subscriber's channel accepted so far (harness bookkeeping for settling only)
	gate   *vfGate
	reader *vfReader
	conn   net.Conn
	done   chan struct{}
	mu     sync.Mutex
	got    []string // tcp: decoded by the client
}

type vfGate struct {
	mu      sync.Mutex
	cond    *sync.Cond
	open    bool
	permits int
	inWrite bool
	failed  bool
	got     []string
}

func vfCanon(ev eventmon.EventV0) string {
	cd := "-"
	if len(ev.CertData) > 0 {
		cd = hex.EncodeToString(ev.CertData)
	}
	return fmt.Sprintf("%s,%s,%s,%s,%s,%s", ev.Type, cd, vfHex(ev.AuthType), vfHex(ev.ServiceProviderUrl),
		vfHex(ev.Username), vfHex(ev.VIPAuthType))
}

func (g *vfGate) Write(p []byte) (int, error) {
	var ev eventmon.EventV0
	c := "undecodable:" + hex.EncodeToString(p)
	if err := json.Unmarshal(p, &ev); err == nil {
		c = vfCanon(ev)
	}
	g.mu.Lock()
	defer g.mu.Unlock()
	g.got = append(g.got, c)
	g.inWrite = true
	for !g.open && g.permits == 0 && !g.failed {
		g.cond.Wait()
	}
	g.inWrite = false
	if g.failed {
		return 0, io.ErrClosedPipe
	}
	if !g.open {
		g.permits--
	}
	return len(p), nil
}

type vfReader struct{ closed chan struct{} }

func (r *vfReader) Read(p []byte) (int, error) {
	<-r.closed
	return 0, io.EOF
}

func (s *vfSub) count() (int, bool) {
	if s.gate != nil {
		s.gate.mu.Lock()
		defer s.gate.mu.Unlock()
		return len(s.gate.got), s.gate.inWrite
	}
	s.mu.Lock()
	defer s.mu.Unlock()
	return len(s.got), false
}

func (s *vfSub) events() []string {
	if s.gate != nil {
		s.gate.mu.Lock()
		defer s.gate.mu.Unlock()
		return append([]string(nil), s.gate.got...)
	}
	s.mu.Lock()
	defer s.mu.Unlock()
	return append([]string(nil), s.got...)
}

type vfNotifierHarness struct {
	t    *testing.T
	n    *EventNotifier
	srv  *httptest.Server
	subs map[int]*vfSub
	note string
}

func (h *vfNotifierHarness) channels() map[chan<- eventmon.EventV0]bool {
	h.n.mutex.Lock()
	defer h.n.mutex.Unlock()
	m := map[chan<- eventmon.EventV0]bool{}
	for ch := range h.n.transmitChannels {
		m[ch] = true
	}
	return m
}

// waitNewChannel polls until the notifier registered a channel that was not there before.
func (h *vfNotifierHarness) waitNewChannel(before map[chan<- eventmon.EventV0]bool) chan<- eventmon.EventV0 {
	deadline := time.Now().Add(5 * time.Second)
	for time.Now().Before(deadline) {
		for ch := range h.channels() {
			if !before[ch] {
				return ch
			}
		}
		time.Sleep(200 * time.Microsecond)
	}
	return nil
}

func (h *vfNotifierHarness) subscribe(id int, kind string) bool {
	before := h.channels()
	s := &vfSub{id: id, kind: kind, done: make(chan struct{})}
	switch kind {
	case "gated", "free":
		s.gate = &vfGate{open: kind == "free"}
		s.gate.cond = sync.NewCond(&s.gate.mu)
		s.reader = &vfReader{closed: make(chan struct{})}
		rw := bufio.NewReadWriter(bufio.NewReader(s.reader), bufio.NewWriter(s.gate))
		go func() {
			h.n.handleConnection(rw)
			close(s.done)
		}()
	case "tcp", "stall":
		conn, err := net.Dial("tcp", h.srv.Listener.Addr().String())
		if err != nil {
			h.note = err.Error()
			return false
		}
		// exactly what eventmon/monitord.connect sends and expects
		io.WriteString(conn, "CONNECT "+eventmon.HttpPath+" HTTP/1.0\n\n")
		br := bufio.NewReader(conn)
		resp, err := http.ReadResponse(br, &http.Request{Method: "CONNECT"})
		if err != nil || resp.Status != eventmon.ConnectString {
			h.note = fmt.Sprintf("connect: %v %v", err, resp)
			conn.Close()
			return false
		}
		s.conn = conn
		if kind == "tcp" {
			go func() {
				dec := json.NewDecoder(br)
				for {
					var ev eventmon.EventV0
					if err := dec.Decode(&ev); err != nil {
						close(s.done)
						return
					}
					s.mu.Lock()
					s.got = append(s.got, vfCanon(ev))
					s.mu.Unlock()
				}
			}()
		}
	default:
		return false
	}
	s.ch = h.waitNewChannel(before)
	if s.ch == nil {
		h.note = "subscriber channel never registered"
		return false
	}
	h.subs[id] = s
	return true
}

func (h *vfNotifierHarness) ids() []int {
	var l []int
	for id := range h.subs {
		l = append(l, id)
	}
	sort.Ints(l)
	return l
}

// beforePublish: bookkeeping used only to know when the goroutines have come to rest.
func (h *vfNotifierHarness) beforePublish() {
	for _, s := range h.subs {
		if len(s.ch) < cap(s.ch) {
			s.total++
		}
	}
}

// settle waits until every reported subscriber's goroutine has nothing left to do on its own.
func (h *vfNotifierHarness) settle() bool {
	deadline := time.Now().Add(5 * time.Second)
	for {
		ok := true
		for _, s := range h.subs {
			if s.kind == "stall" {
				continue
			}
			n, inWrite := s.count()
			l := len(s.ch)
			if n+l != s.total {
				ok = false
			} else if s.kind == "gated" {
				if !(inWrite || l == 0) {
					ok = false
				}
			} else if l != 0 {
				ok = false
			}
		}
		if ok {
			return true
		}
		if time.Now().After(deadline) {
			return false
		}
		time.Sleep(100 * time.Microsecond)
	}
}

func (h *vfNotifierHarness) status(box bool) string {
	settled := h.settle()
	out := "box=" + vfBool(box)
	if !settled {
		out = "box=" + vfBool(box) + " UNSETTLED"
	}
	var stall []string
	for _, id := range h.ids() {
		s := h.subs[id]
		if s.kind == "stall" {
			stall = append(stall, fmt.Sprintf("%d:%d", id, len(s.ch)))
			continue
		}
		n, _ := s.count()
		out += fmt.Sprintf(" %d:%d:%d", id, len(s.ch), n)
	}
	if len(stall) > 0 {
		out += " #stall=" + strings.Join(stall, ",")
	}
	return out
}

func vfBox(f func()) bool {
	done := make(chan struct{})
	go func() {
		f()
		close(done)
	}()
	select {
	case <-done:
		return true
	case <-time.After(3 * time.Second):
		return false
	}
}

func (h *vfNotifierHarness) closeSub(id int) string {
	s := h.subs[id]
	evs := s.events()
	if s.gate != nil {
		s.gate.mu.Lock()
		s.gate.failed = true
		s.gate.cond.Broadcast()
		s.gate.mu.Unlock()
		close(s.reader.closed)
	} else {
		s.conn.Close()
	}
	// wait for handleConnection's deferred delete
	deadline := time.Now().Add(5 * time.Second)
	for h.channels()[s.ch] && time.Now().Before(deadline) {
		time.Sleep(200 * time.Microsecond)
	}
	gone := !h.channels()[s.ch]
	delete(h.subs, id)
	if s.kind == "stall" {
		if !gone {
			return "closed-not-removed"
		}
		return "closed"
	}
	l := "-"
	if len(evs) > 0 {
		l = strings.Join(evs, "|")
	}
	if !gone {
		return fmt.Sprintf("closed-not-removed %d=%s", id, l)
	}
	return fmt.Sprintf("closed %d=%s", id, l)
}

func TestVerifC20(t *testing.T) {
	io_ := vfOpen(t)
	defer io_.close()
	h := &vfNotifierHarness{t: t, n: New(testlogger.New(t)), subs: map[int]*vfSub{}}
	mux := http.NewServeMux()
	mux.Handle(eventmon.HttpPath, h.n)
	h.srv = httptest.NewServer(mux)
	defer h.srv.Close()
	for _, line := range io_.ops {
		f := strings.Fields(line)
		if len(f) < 2 || f[0] != "n" {
			io_.emit("bad-op")
			continue
		}
		f = f[1:]
		switch {
		case f[0] == "sub" && len(f) == 3:
			id, err := strconv.Atoi(f[1])
			if err != nil || h.subs[id] != nil {
				io_.emit("bad-op")
				continue
			}
			if !h.subscribe(id, f[2]) {
				io_.emit("sub-failed %s", h.note)
				continue
			}
			io_.emit("%s", h.status(true))
		case f[0] == "pub":
			call := vfPubCall(h.n, f[1:])
			if call == nil {
				io_.emit("bad-op")
				continue
			}
			h.beforePublish()
			box := vfBox(call)
			io_.emit("%s", h.status(box))
		case f[0] == "flood" && len(f) == 3:
			n, e1 := strconv.Atoi(f[1])
			size, e2 := strconv.Atoi(f[2])
			if e1 != nil || e2 != nil {
				io_.emit("bad-op")
				continue
			}
			url := strings.Repeat("x", size)
			box := true
			for i := 0; i < n; i++ {
				h.beforePublish()
				if !vfBox(func() { h.n.PublishServiceProviderLoginEvent(url, "flood") }) {
					box = false
				}
				if !h.settle() {
					break
				}
			}
			io_.emit("%s", h.status(box))
		case f[0] == "release" && len(f) == 2:
			id, err := strconv.Atoi(f[1])
			s := h.subs[id]
			if err != nil || s == nil {
				io_.emit("bad-op")
				continue
			}
			if s.gate != nil {
				s.gate.mu.Lock()
				if s.gate.inWrite && !s.gate.open {
					s.gate.permits++
					s.gate.cond.Broadcast()
					// wait for the write to return so that the next state is well defined
					for s.gate.permits > 0 {
						s.gate.mu.Unlock()
						time.Sleep(50 * time.Microsecond)
						s.gate.mu.Lock()
					}
				}
				s.gate.mu.Unlock()
			}
			io_.emit("%s", h.status(true))
		case f[0] == "close" && len(f) == 2:
			id, err := strconv.Atoi(f[1])
			if err != nil || h.subs[id] == nil {
				io_.emit("bad-op")
				continue
			}
			res := h.closeSub(id)
			io_.emit("%s %s", res, h.status(true))
		case f[0] == "dump":
			out := "dump"
			for _, id := range h.ids() {
				s := h.subs[id]
				if s.kind == "stall" {
					continue
				}
				evs := s.events()
				l := "-"
				if len(evs) > 0 {
					l = strings.Join(evs, "|")
				}
				out += fmt.Sprintf(" %d=%s", id, l)
			}
			io_.emit("%s", out)
		default:
			io_.emit("bad-op")
		}
	}
	for _, id := range h.ids() {
		h.closeSub(id)
	}
}

func vfPubCall(n *EventNotifier, f []string) func() {
	un := func(s string) (string, bool) { return vfUnhex(s) }
	switch {
	case len(f) == 2 && (f[0] == "ssh" || f[0] == "x509"):
		b, ok := un(f[1])
		if !ok {
			return nil
		}
		if f[0] == "ssh" {
			return func() { n.PublishSSH([]byte(b)) }
		}
		return func() { n.PublishX509([]byte(b)) }
	case len(f) == 3 && f[0] == "auth":
		a, ok1 := un(f[1])
		u, ok2 := un(f[2])
		if !ok1 || !ok2 {
			return nil
		}
		return func() { n.PublishAuthEvent(a, u) }
	case len(f) == 3 && f[0] == "sp":
		a, ok1 := un(f[1])
		u, ok2 := un(f[2])
		if !ok1 || !ok2 {
			return nil
		}
		return func() { n.PublishServiceProviderLoginEvent(a, u) }
	case len(f) == 2 && f[0] == "web":
		u, ok := un(f[1])
		if !ok {
			return nil
		}
		return func() { n.PublishWebLoginEvent(u) }
	case len(f) == 3 && f[0] == "vip":
		a, ok1 := un(f[1])
		u, ok2 := un(f[2])
		if !ok1 || !ok2 {
			return nil
		}
		return func() { n.PublishVIPAuthEvent(a, u) }
	}
	return nil
}
