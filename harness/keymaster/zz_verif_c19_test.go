package main

import (
	"bytes"
	"crypto"
	"crypto/dsa"
	"crypto/ecdsa"
	"crypto/ed25519"
	"crypto/elliptic"
	"crypto/rand"
	"crypto/rsa"
	"crypto/x509"
	"encoding/base64"
	"encoding/pem"
	"errors"
	"fmt"
	"io"
	"net"
	"net/http"
	"net/url"
	"os"
	"path/filepath"
	"sort"
	"strconv"
	"strings"
	"sync/atomic"
	"testing"
	"time"

	"github.com/Cloud-Foundations/golib/pkg/log/testlogger"
	"github.com/Cloud-Foundations/keymaster/lib/client/config"
	"github.com/Cloud-Foundations/keymaster/lib/client/util"
	"golang.org/x/crypto/ssh"
	"golang.org/x/crypto/ssh/agent"
)

// TestVerifC19 (stream `k` of the C19 driver): the real client key generation and credential
// installation of cmd/keymaster.
//
//	k keys <pref>      keyPreferenceFromString + makeSigners + Wait, then serialised exactly as
//	                   twofa.doCertRequest serialises public keys
//	                   -> x509=<kind>:<bits>:<e> sshmain=… ed=… #sshmain=<hex line> #ed=<hex line> #pkix=<hex PEM>
//	k install <pref> agent|noagent
//	                   insertSSHCertIntoAgentORWriteToFilesystem three times with the real SshMain key and a
//	                   locally signed certificate, under a temporary directory, with / without an agent
//	                   -> files=<name:mode,…> agent=<comment:cert|plain,…> keyfile=<private key found in a file 0|1>
//	k install <pref> flaky:<w>+<w>,…
//	                   a healthy first run, then one run per plan against an agent that fails one request of each
//	                   connection (= attempt) of that run: ok | list | remove<k> | add | life (lifetime refused)
//	k install <pref> planted
//	                   the agent-absent case with foreign listeners on conventional agent socket names under
//	                   $TMPDIR -> … captured=<keys those listeners received> foreignconns=<connections they accepted>
//	k genkey <kind> <bits>   a key of any kind for the server's acceptance matrix
//	                   -> desc=<kind:bits:e> #ssh=<hex line> #pkix=<hex PEM>
//	k genkeypair       util.GenKeyPair -> files=<name:mode,…>
//	k setup <pref> agent|noagent <dir>
//	                   the real setupCerts (password on stdin, real getHttpClient) against the server
//	                   harness process whose address and certificate are in <dir>; every request the
//	                   client sends is recorded and searched for private-key material
//	                   -> ok|error files=… agent=… privfiles0600=… privfilesother=… requests=<n> bytes=<n>
//	                      keys=<private keys recovered from the written files> patterns=<n> leaks=<n> pubreqs=<n>
func vfKeyDesc(pub crypto.PublicKey) string {
	switch k := pub.(type) {
	case *rsa.PublicKey:
		return fmt.Sprintf("rsa:%d:%d", k.N.BitLen(), k.E)
	case *ecdsa.PublicKey:
		return fmt.Sprintf("ecdsa:%d:0", k.Curve.Params().BitSize)
	case ed25519.PublicKey:
		return "ed25519:256:0"
	}
	return "other:0:0"
}

func vfSSHLine(pub crypto.PublicKey) string {
	sshPub, err := ssh.NewPublicKey(pub)
	if err != nil {
		return ""
	}
	return string(ssh.MarshalAuthorizedKey(sshPub))
}

func vfListDir(dir string) string {
	var l []string
	filepath.Walk(dir, func(path string, info os.FileInfo, err error) error {
		if err == nil && !info.IsDir() && info.Mode()&os.ModeSocket == 0 {
			rel, _ := filepath.Rel(dir, path)
			l = append(l, fmt.Sprintf("%s:%o", rel, info.Mode().Perm()))
		}
		return nil
	})
	sort.Strings(l)
	if len(l) == 0 {
		return "-"
	}
	return strings.Join(l, ",")
}

func vfHasPrivateKeyFile(dir string) (priv0600 int, privOther int) {
	filepath.Walk(dir, func(path string, info os.FileInfo, err error) error {
		if err == nil && !info.IsDir() && info.Mode().IsRegular() {
			data, _ := os.ReadFile(path)
			if strings.Contains(string(data), "PRIVATE KEY") {
				if info.Mode().Perm() == 0600 {
					priv0600++
				} else {
					privOther++
				}
			}
		}
		return nil
	})
	return
}

func TestVerifC19(t *testing.T) {
	io := vfOpen(t)
	defer io.close()
	logger := testlogger.New(t)
	caPub, caPriv, _ := ed25519.GenerateKey(rand.Reader)
	_ = caPub
	caSigner, err := ssh.NewSignerFromKey(caPriv)
	if err != nil {
		t.Fatal(err)
	}
	cache := map[string]*signers{}
	get := func(pref string) (*signers, error) {
		if s, ok := cache[pref]; ok {
			return s, nil
		}
		kp, err := keyPreferenceFromString(pref)
		if err != nil {
			return nil, err
		}
		s := makeSigners(kp)
		if err := s.Wait(); err != nil {
			return nil, err
		}
		cache[pref] = s
		return s, nil
	}
	for _, line := range io.ops {
		f := strings.Fields(line)
		if len(f) < 2 || f[0] != "k" {
			io.emit("bad-op")
			continue
		}
		f = f[1:]
		switch {
		case f[0] == "keys" && len(f) == 2:
			s, err := get(f[1])
			if err != nil {
				io.emit("error %s", vfHex(err.Error()))
				continue
			}
			der, _ := x509.MarshalPKIXPublicKey(s.X509.Public())
			pkix := string(pem.EncodeToMemory(&pem.Block{Type: "PUBLIC KEY", Bytes: der}))
			io.emit("x509=%s sshmain=%s ed=%s #sshmain=%s #ed=%s #pkix=%s", vfKeyDesc(s.X509.Public()),
				vfKeyDesc(s.SshMain.Public()), vfKeyDesc(s.SshEd25519.Public()),
				vfHex(vfSSHLine(s.SshMain.Public())), vfHex(vfSSHLine(s.SshEd25519.Public())), vfHex(pkix))
		case f[0] == "install" && len(f) == 3:
			s, err := get(f[1])
			if err != nil {
				io.emit("error %s", vfHex(err.Error()))
				continue
			}
			dir, _ := os.MkdirTemp("", "vfc19")
			keyring := agent.NewKeyring()
			old, had := os.LookupEnv("SSH_AUTH_SOCK")
			os.Unsetenv("SSH_AUTH_SOCK")
			var ln net.Listener
			// flaky:<w>+<w>,…  after a first healthy run, one more run per comma-separated plan; the agent fails one
			// request of each connection (= attempt) of that run: ok | list | remove<k> | add | life
			var plans [][]string
			var plan []string // of the current run
			conns := 0
			if strings.HasPrefix(f[2], "flaky:") {
				for _, p := range strings.Split(f[2][len("flaky:"):], ",") {
					plans = append(plans, strings.Split(p, "+"))
				}
			}
			if f[2] == "agent" || plans != nil {
				sock := filepath.Join(dir, "agent.sock")
				ln, err = net.Listen("unix", sock)
				if err != nil {
					t.Fatal(err)
				}
				go func() {
					for {
						c, err := ln.Accept()
						if err != nil {
							return
						}
						var served agent.Agent = keyring
						if conns < len(plan) {
							served = vfNewFaultyAgent(keyring, plan[conns])
						}
						conns++
						go agent.ServeAgent(served, c)
					}
				}()
				os.Setenv("SSH_AUTH_SOCK", sock)
			}
			// planted: no agent is configured, but somebody else listens on guessable agent-socket names in the
			// world-writable temporary directory (TMPDIR points at a scratch directory; XDG_RUNTIME_DIR unset)
			var planted *vfPlanted
			if f[2] == "planted" {
				planted = vfPlant(t)
				defer planted.restore()
			}
			result := "ok"
			rounds := 3
			if plans != nil {
				rounds = 1 + len(plans)
			}
			for round := 0; round < rounds; round++ {
				if plans != nil && round > 0 {
					// the client is sequential: no connection is being accepted between two runs
					plan, conns = plans[round-1], 0
				}
				sshPub, _ := ssh.NewPublicKey(s.SshMain.Public())
				cert := &ssh.Certificate{Key: sshPub, CertType: ssh.UserCert, KeyId: "username", Serial: uint64(round + 1),
					ValidPrincipals: []string{"username"}, ValidAfter: uint64(time.Now().Unix() - 60),
					ValidBefore: uint64(time.Now().Unix() + 3600)}
				if err := cert.SignCert(rand.Reader, caSigner); err != nil {
					t.Fatal(err)
				}
				certText := ssh.MarshalAuthorizedKey(cert)
				err = insertSSHCertIntoAgentORWriteToFilesystem(certText, s.SshMain, FilePrefix+"-"+f[1], "username",
					filepath.Join(dir, "ssh", "keymaster-"+f[1]), false, logger)
				if err != nil && f[2] != "agent" && plans == nil && round == 0 {
					// the key directory must exist, as setupCerts' makeDirs guarantees
					os.MkdirAll(filepath.Join(dir, "ssh"), 0700)
					err = insertSSHCertIntoAgentORWriteToFilesystem(certText, s.SshMain, FilePrefix+"-"+f[1], "username",
						filepath.Join(dir, "ssh", "keymaster-"+f[1]), false, logger)
				}
				if err != nil {
					result = "error:" + vfHex(err.Error())
				}
			}
			keys, _ := keyring.List()
			var al []string
			for _, k := range keys {
				kind := "plain"
				if strings.Contains(k.Format, "-cert-") {
					kind = "cert"
				}
				al = append(al, vfHex(k.Comment)+":"+kind)
			}
			sort.Strings(al)
			ag := "-"
			if len(al) > 0 {
				ag = strings.Join(al, ",")
			}
			p600, pOther := vfHasPrivateKeyFile(dir)
			extra := ""
			if planted != nil {
				keys, conns := planted.captured()
				extra = fmt.Sprintf(" captured=%d foreignconns=%d planted=%d", keys, conns, len(planted.listeners))
				planted.restore()
			}
			io.emit("%s files=%s agent=%s privfiles0600=%d privfilesother=%d%s", result, vfListDir(dir), ag, p600, pOther, extra)
			if ln != nil {
				ln.Close()
			}
			if had {
				os.Setenv("SSH_AUTH_SOCK", old)
			} else {
				os.Unsetenv("SSH_AUTH_SOCK")
			}
			os.RemoveAll(dir)
		case f[0] == "setup" && len(f) == 4:
			io.emit("%s", vfSetup(t, f[1], f[2], f[3]))
		case f[0] == "genkey" && len(f) == 3:
			io.emit("%s", vfGenKey(f[1], f[2]))
		case f[0] == "genkeypair":
			dir, _ := os.MkdirTemp("", "vfc19")
			_, _, err := util.GenKeyPair(filepath.Join(dir, "id"), "me@example", logger)
			p600, pOther := vfHasPrivateKeyFile(dir)
			res := "ok"
			if err != nil {
				res = "error"
			}
			io.emit("%s files=%s agent=- privfiles0600=%d privfilesother=%d", res, vfListDir(dir), p600, pOther)
			os.RemoveAll(dir)
		default:
			io.emit("bad-op")
		}
	}
}

// vfRecorder records every request the client hands to its transport: request line, headers, body.
type vfRecorder struct {
	inner http.RoundTripper
	reqs  [][]byte
	pub   int
}

func (r *vfRecorder) RoundTrip(req *http.Request) (*http.Response, error) {
	var buf bytes.Buffer
	fmt.Fprintf(&buf, "%s %s\n", req.Method, req.URL.String())
	req.Header.Write(&buf)
	for _, c := range req.Cookies() {
		fmt.Fprintf(&buf, "cookie %s=%s\n", c.Name, c.Value)
	}
	if req.Body != nil {
		body, _ := io.ReadAll(req.Body)
		req.Body.Close()
		buf.Write(body)
		req.Body = io.NopCloser(bytes.NewReader(body))
		if bytes.Contains(body, []byte("PUBLIC KEY")) || bytes.Contains(body, []byte("ssh-")) || bytes.Contains(body, []byte("ecdsa-sha2-")) {
			r.pub++
		}
	}
	r.reqs = append(r.reqs, buf.Bytes())
	return r.inner.RoundTrip(req)
}

// vfPrivatePatterns: byte strings that must never leave the client for one private key.
func vfPrivatePatterns(key interface{}) [][]byte {
	var out [][]byte
	add := func(b []byte) {
		if len(b) >= 16 {
			out = append(out, b)
		}
	}
	if der, err := x509.MarshalPKCS8PrivateKey(key); err == nil {
		add(der)
	}
	switch k := key.(type) {
	case *rsa.PrivateKey:
		add(x509.MarshalPKCS1PrivateKey(k))
		add(k.D.Bytes())
		for _, p := range k.Primes {
			add(p.Bytes())
		}
	case *ecdsa.PrivateKey:
		if der, err := x509.MarshalECPrivateKey(k); err == nil {
			add(der)
		}
		add(k.D.Bytes())
	case ed25519.PrivateKey:
		add(k.Seed())
		add([]byte(k))
	case *ed25519.PrivateKey:
		add(k.Seed())
		add([]byte(*k))
	}
	return out
}

func vfIsB64(c byte) bool {
	return c >= 'a' && c <= 'z' || c >= 'A' && c <= 'Z' || c >= '0' && c <= '9' || c == '+' || c == '/' || c == '-' || c == '_'
}

// vfHaystacks: the bytes as sent, their URL-decoded form, and the decoding of every base64 run
// at each alignment.
func vfHaystacks(w []byte) [][]byte {
	hs := [][]byte{w}
	if u, err := url.QueryUnescape(string(w)); err == nil && u != string(w) {
		hs = append(hs, []byte(u))
	}
	for i := 0; i < len(w); {
		if !vfIsB64(w[i]) {
			i++
			continue
		}
		j := i
		for j < len(w) && vfIsB64(w[j]) {
			j++
		}
		if j-i >= 24 {
			run := strings.NewReplacer("-", "+", "_", "/").Replace(string(w[i:j]))
			for shift := 0; shift < 4 && shift < len(run); shift++ {
				part := run[shift:]
				part = part[:len(part)/4*4]
				if dec, err := base64.StdEncoding.DecodeString(part); err == nil {
					hs = append(hs, dec)
				}
			}
		}
		i = j
	}
	return hs
}

func vfSetup(t *testing.T, pref, mode, sdir string) string {
	logger := testlogger.New(t)
	addr, err1 := os.ReadFile(filepath.Join(sdir, "addr"))
	ca, err2 := os.ReadFile(filepath.Join(sdir, "ca.pem"))
	if err1 != nil || err2 != nil {
		return "error:no-server"
	}
	pool := x509.NewCertPool()
	pool.AppendCertsFromPEM(ca)
	client, err := getHttpClient(pool, logger)
	if err != nil {
		return "error:" + vfHex(err.Error())
	}
	rec := &vfRecorder{inner: client.Transport}
	client.Transport = rec
	home, _ := os.MkdirTemp("", "vfc19home")
	defer os.RemoveAll(home)
	keyring := agent.NewKeyring()
	old, had := os.LookupEnv("SSH_AUTH_SOCK")
	os.Unsetenv("SSH_AUTH_SOCK")
	defer func() {
		if had {
			os.Setenv("SSH_AUTH_SOCK", old)
		} else {
			os.Unsetenv("SSH_AUTH_SOCK")
		}
	}()
	if mode == "agent" {
		sockDir, _ := os.MkdirTemp("", "vfc19sock")
		defer os.RemoveAll(sockDir)
		sock := filepath.Join(sockDir, "agent.sock")
		ln, err := net.Listen("unix", sock)
		if err != nil {
			return "error:listen"
		}
		defer ln.Close()
		go func() {
			for {
				c, err := ln.Accept()
				if err != nil {
					return
				}
				go agent.ServeAgent(keyring, c)
			}
		}()
		os.Setenv("SSH_AUTH_SOCK", sock)
	}
	// the password prompt reads os.Stdin
	pr, pw, _ := os.Pipe()
	pw.WriteString("password\n")
	pw.Close()
	oldStdin := os.Stdin
	os.Stdin = pr
	var cfg config.AppConfigFile
	cfg.Base.Gen_Cert_URLS = string(addr)
	cfg.Base.PreferredKeyType = pref
	cfg.Base.Username = "username"
	err = setupCerts("username", home, cfg, client, logger)
	os.Stdin = oldStdin
	pr.Close()
	result := "ok"
	if err != nil {
		result = "error:" + vfHex(err.Error())
	}
	// private keys recovered from what was written
	var keys []interface{}
	filepath.Walk(home, func(path string, info os.FileInfo, err error) error {
		if err != nil || info.IsDir() {
			return nil
		}
		data, _ := os.ReadFile(path)
		if !bytes.Contains(data, []byte("PRIVATE KEY")) {
			return nil
		}
		if k, err := ssh.ParseRawPrivateKey(data); err == nil {
			keys = append(keys, k)
		} else if block, _ := pem.Decode(data); block != nil {
			if k, err := x509.ParsePKCS8PrivateKey(block.Bytes); err == nil {
				keys = append(keys, k)
			}
		}
		return nil
	})
	var patterns [][]byte
	for _, k := range keys {
		patterns = append(patterns, vfPrivatePatterns(k)...)
	}
	patterns = append(patterns, []byte("PRIVATE KEY"), []byte("OPENSSH PRIVATE"))
	leaks, total := 0, 0
	for _, w := range rec.reqs {
		total += len(w)
		for _, h := range vfHaystacks(w) {
			for _, p := range patterns {
				if bytes.Contains(h, p) {
					leaks++
				}
			}
		}
	}
	agentKeys, _ := keyring.List()
	var al []string
	for _, k := range agentKeys {
		kind := "plain"
		if strings.Contains(k.Format, "-cert-") {
			kind = "cert"
		}
		al = append(al, vfHex(k.Comment)+":"+kind)
	}
	sort.Strings(al)
	ag := "-"
	if len(al) > 0 {
		ag = strings.Join(al, ",")
	}
	p600, pOther := vfHasPrivateKeyFile(home)
	return fmt.Sprintf("%s files=%s agent=%s privfiles0600=%d privfilesother=%d requests=%d bytes=%d keys=%d patterns=%d leaks=%d pubreqs=%d",
		result, vfListDir(home), ag, p600, pOther, len(rec.reqs), total, len(keys), len(patterns), leaks, rec.pub)
}

func vfGenKey(kind, bitsStr string) string {
	bits, err := strconv.Atoi(bitsStr)
	if err != nil {
		return "bad-op"
	}
	var pub crypto.PublicKey
	desc := ""
	switch kind {
	case "rsa":
		if k, err := rsa.GenerateKey(rand.Reader, bits); err == nil {
			pub = k.Public()
		}
	case "ecdsa":
		curve := map[int]elliptic.Curve{224: elliptic.P224(), 256: elliptic.P256(), 384: elliptic.P384(), 521: elliptic.P521()}[bits]
		if curve != nil {
			if k, err := ecdsa.GenerateKey(curve, rand.Reader); err == nil {
				pub = k.Public()
			}
		}
	case "ed25519":
		if p, _, err := ed25519.GenerateKey(rand.Reader); err == nil {
			pub = p
		}
	case "dsa":
		var k dsa.PrivateKey
		if dsa.GenerateParameters(&k.Parameters, rand.Reader, dsa.L1024N160) == nil && dsa.GenerateKey(&k, rand.Reader) == nil {
			pub = &k.PublicKey
			desc = fmt.Sprintf("dsa:%d:0", k.P.BitLen())
		}
	}
	if pub == nil {
		return "error"
	}
	if desc == "" {
		desc = vfKeyDesc(pub)
	}
	sshLine, pkix := vfSSHLine(pub), ""
	if der, err := x509.MarshalPKIXPublicKey(pub); err == nil {
		pkix = string(pem.EncodeToMemory(&pem.Block{Type: "PUBLIC KEY", Bytes: der}))
	}
	return fmt.Sprintf("desc=%s #ssh=%s #pkix=%s", desc, vfHex(sshLine), vfHex(pkix))
}

// vfPlanted: what another local user could do — listen on predictable names in the shared temp dir.
type vfPlanted struct {
	dir       string
	listeners []net.Listener
	rings     []agent.Agent
	conns     int64
	env       map[string]*string
	done      bool
}

var vfPlantedNames = []string{"ssh-agent.socket", "ssh-agent.sock", "agent.sock", "ssh_auth_sock", "ssh-agent",
	"S.gpg-agent.ssh", "gnupg/S.gpg-agent.ssh", "keyring/ssh", "gcr/ssh", "openssh_agent", "ssh-agent.username"}

func vfPlant(t *testing.T) *vfPlanted {
	p := &vfPlanted{env: map[string]*string{}}
	p.dir, _ = os.MkdirTemp("", "vfc19tmp")
	os.Chmod(p.dir, 0777|os.ModeSticky)
	for _, name := range vfPlantedNames {
		path := filepath.Join(p.dir, name)
		os.MkdirAll(filepath.Dir(path), 0777)
		ln, err := net.Listen("unix", path)
		if err != nil {
			continue
		}
		ring := agent.NewKeyring()
		p.listeners = append(p.listeners, ln)
		p.rings = append(p.rings, ring)
		go func() {
			for {
				c, err := ln.Accept()
				if err != nil {
					return
				}
				atomic.AddInt64(&p.conns, 1)
				go agent.ServeAgent(ring, c)
			}
		}()
	}
	for _, k := range []string{"TMPDIR", "XDG_RUNTIME_DIR", "SSH_AUTH_SOCK"} {
		if v, ok := os.LookupEnv(k); ok {
			vv := v
			p.env[k] = &vv
		} else {
			p.env[k] = nil
		}
	}
	os.Setenv("TMPDIR", p.dir)
	os.Unsetenv("XDG_RUNTIME_DIR")
	os.Unsetenv("SSH_AUTH_SOCK")
	return p
}

func (p *vfPlanted) captured() (int, int) {
	n := 0
	for _, r := range p.rings {
		keys, _ := r.List()
		n += len(keys)
	}
	return n, int(atomic.LoadInt64(&p.conns))
}

func (p *vfPlanted) restore() {
	if p.done {
		return
	}
	p.done = true
	for k, v := range p.env {
		if v == nil {
			os.Unsetenv(k)
		} else {
			os.Setenv(k, *v)
		}
	}
	for _, ln := range p.listeners {
		ln.Close()
	}
	os.RemoveAll(p.dir)
}

// vfFaultyAgent serves one connection (one attempt of the client) and fails one request of it, as a
// restarting, busy or forwarded agent does; `life`: lifetime constraints refused (Windows OpenSSH agent).
type vfFaultyAgent struct {
	agent.Agent
	word    string
	removes int
}

func vfNewFaultyAgent(inner agent.Agent, word string) agent.Agent {
	return &vfFaultyAgent{Agent: inner, word: word}
}

func (a *vfFaultyAgent) List() ([]*agent.Key, error) {
	if a.word == "list" {
		return nil, errors.New("transient agent failure")
	}
	return a.Agent.List()
}

func (a *vfFaultyAgent) Remove(key ssh.PublicKey) error {
	if a.word == fmt.Sprintf("remove%d", a.removes) {
		a.word = "ok"
		return errors.New("transient agent failure")
	}
	a.removes++
	return a.Agent.Remove(key)
}

func (a *vfFaultyAgent) Add(key agent.AddedKey) error {
	if a.word == "add" || (a.word == "life" && key.LifetimeSecs != 0) {
		return errors.New("transient agent failure")
	}
	return a.Agent.Add(key)
}
