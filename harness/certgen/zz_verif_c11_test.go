package certgen

import (
	"crypto/ecdsa"
	"crypto/elliptic"
	"crypto/rand"
	"crypto/x509"
	"crypto/x509/pkix"
	"encoding/asn1"
	"fmt"
	"math/big"
	"net"
	"strconv"
	"strings"
	"sync"
	"testing"
	"time"
)

// peer class as the standard library sees the RemoteAddr string (independent of the code under test)
func vfPeerClass(remoteAddr string) string {
	host, _, err := net.SplitHostPort(remoteAddr)
	if err != nil {
		return "noport"
	}
	ip := net.ParseIP(host)
	if ip == nil {
		return "unparsed"
	}
	if v4 := ip.To4(); v4 != nil {
		if strings.Contains(host, ":") {
			return "m4:" + v4.String()
		}
		return "v4:" + v4.String()
	}
	return "v6"
}

func vfBytesStr(b []byte) string {
	if len(b) == 0 {
		return "_"
	}
	return fmt.Sprintf("%x", b)
}

// what encoding/asn1 makes of an extension value, in the driver's text form
func vfParseExt(value []byte) string {
	var fams []IpAdressFamily
	if _, err := asn1.Unmarshal(value, &fams); err != nil {
		return "unparsable"
	}
	var fs []string
	for _, f := range fams {
		var as []string
		for _, a := range f.Addresses {
			as = append(as, fmt.Sprintf("%d:%s", a.BitLength, vfBytesStr(a.Bytes)))
		}
		l := "-"
		if len(as) > 0 {
			l = strings.Join(as, ",")
		}
		fs = append(fs, vfBytesStr(f.AddressFamily)+"="+l)
	}
	if len(fs) == 0 {
		return "P-"
	}
	return "P" + strings.Join(fs, ";")
}

func vfNetStr(n net.IPNet) string {
	ones, bits := n.Mask.Size()
	if n.Mask == nil {
		return n.IP.String() + "/nilmask"
	}
	if bits != 32 {
		return n.IP.String() + "/" + strconv.Itoa(ones) + "of" + strconv.Itoa(bits)
	}
	return n.IP.String() + "/" + strconv.Itoa(ones)
}

func vfNetsStr(l []net.IPNet) string {
	if len(l) == 0 {
		return "-"
	}
	s := make([]string, len(l))
	for i, n := range l {
		s[i] = vfNetStr(n)
	}
	return strings.Join(s, ",")
}

// the three readers on one certificate, each with its own recover()
func vfReaders(cert *x509.Certificate, remoteAddr string) string {
	restricted := IsIPRestrictedX509Cert(cert)
	verify := func() (res string) {
		defer func() {
			if p := recover(); p != nil {
				res = "PANIC"
			}
		}()
		ok, err := VerifyIPRestrictedX509CertIP(cert, remoteAddr)
		if err != nil {
			if ok {
				return "err+true"
			}
			return "err"
		}
		if ok {
			return "t"
		}
		return "f"
	}()
	extract := func() (res string) {
		defer func() {
			if p := recover(); p != nil {
				res = "PANIC"
			}
		}()
		nets, err := ExtractIPNetsFromIPRestrictedX509(cert)
		if err != nil {
			return "err"
		}
		return "ok:" + vfNetsStr(nets)
	}()
	return fmt.Sprintf("restricted=%s verify=%s extract=%s", vfBool(restricted), verify, extract)
}

type vfCA struct {
	key  *ecdsa.PrivateKey
	cert *x509.Certificate
	leaf *ecdsa.PrivateKey
}

func vfNewCA(t *testing.T) *vfCA {
	key, err := ecdsa.GenerateKey(elliptic.P256(), rand.Reader)
	if err != nil {
		t.Fatal(err)
	}
	der, err := GenSelfSignedCACert("verif-ca", "verif", key)
	if err != nil {
		t.Fatal(err)
	}
	cert, err := x509.ParseCertificate(der)
	if err != nil {
		t.Fatal(err)
	}
	leaf, err := ecdsa.GenerateKey(elliptic.P256(), rand.Reader)
	if err != nil {
		t.Fatal(err)
	}
	return &vfCA{key: key, cert: cert, leaf: leaf}
}

// a real, signed and re-parsed certificate that carries `value` under the address-delegation OID
// (value == nil: no such extension)
func (ca *vfCA) certWithExt(value []byte) (*x509.Certificate, error) {
	tmpl := x509.Certificate{
		SerialNumber: big.NewInt(time.Now().UnixNano()),
		Subject:      pkix.Name{CommonName: "role1"},
		NotBefore:    time.Now().Add(-time.Minute),
		NotAfter:     time.Now().Add(time.Hour),
		KeyUsage:     x509.KeyUsageDigitalSignature,
		ExtKeyUsage:  []x509.ExtKeyUsage{x509.ExtKeyUsageClientAuth},
	}
	if value != nil {
		tmpl.ExtraExtensions = []pkix.Extension{{Id: oidIPAddressDelegation, Value: value}}
	}
	der, err := x509.CreateCertificate(rand.Reader, &tmpl, ca.cert, &ca.leaf.PublicKey, ca.key)
	if err != nil {
		return nil, err
	}
	return x509.ParseCertificate(der)
}

func vfExtValue(cert *x509.Certificate) []byte {
	for _, e := range cert.Extensions {
		if e.Id.Equal(oidIPAddressDelegation) {
			return e.Value
		}
	}
	return nil
}

// `a.b.c.d/n` taken literally (no canonicalisation); i alternates the 4- and 16-byte IP forms
func vfRawNet(s string, i int) (net.IPNet, bool) {
	if s == "other" {
		_, n, _ := net.ParseCIDR("2001:db8::/32")
		return *n, true
	}
	parts := strings.Split(s, "/")
	if len(parts) != 2 {
		return net.IPNet{}, false
	}
	ip := net.ParseIP(parts[0])
	n, err := strconv.Atoi(parts[1])
	if ip == nil || ip.To4() == nil || err != nil || n < 0 || n > 32 {
		return net.IPNet{}, false
	}
	if i%2 == 0 {
		ip = ip.To4()
	}
	return net.IPNet{IP: ip, Mask: net.CIDRMask(n, 32)}, true
}

// TestVerifC11Lib — one output line per op:
//
//	dec <n> <hex|_>            direct decodeIPV4AddressChoice          -> ok a.b.c.d/n | err | PANIC
//	enc a.b.c.d/n              direct encodeIpAddressChoice            -> n:hex | err
//	ver <hexDER|absent> <hexaddr>   extension value inside a real signed certificate
//	                           -> peer=… parse=… restricted=… verify=… extract=…
//	mint <nets> <hexaddr>      GenIPRestrictedX509Cert, parse, read    -> peer=… mint=ok ext=<hexDER> parse=… …
//	cmint <rounds> <nets>@<hexaddr> <nets>@<hexaddr> …
//	                           one request per worker, all workers minting AT THE SAME TIME (released together, <rounds>
//	                           times, two mints per release); every certificate is parsed and read like `mint`
//	                           -> workers=<n> ;; <distinct results of worker 0, " || "-separated> ;; <worker 1> …
//	                           (a result is a `mint` output line; on a tree where requests do not influence each other every
//	                           worker has exactly one distinct result)
func TestVerifC11Lib(t *testing.T) {
	io := vfOpen(t)
	defer io.close()
	ca := vfNewCA(t)
	for _, line := range io.ops {
		f := strings.Fields(line)
		if len(f) == 0 {
			io.emit("bad-op")
			continue
		}
		switch {
		case f[0] == "dec" && len(f) == 3:
			n, err := strconv.Atoi(f[1])
			b, ok := vfUnhexB(f[2])
			if err != nil || !ok {
				io.emit("bad-op")
				continue
			}
			res := func() (res string) {
				defer func() {
					if p := recover(); p != nil {
						res = "PANIC"
					}
				}()
				nb, err := decodeIPV4AddressChoice(asn1.BitString{Bytes: b, BitLength: n})
				if err != nil {
					return "err"
				}
				return "ok " + vfNetStr(nb)
			}()
			io.emit("%s", res)
		case f[0] == "enc" && len(f) == 2:
			nb, ok := vfRawNet(f[1], 0)
			if !ok {
				io.emit("bad-op")
				continue
			}
			bs, err := encodeIpAddressChoice(nb)
			if err != nil {
				io.emit("err")
				continue
			}
			io.emit("%d:%s", bs.BitLength, vfBytesStr(bs.Bytes))
		case f[0] == "ver" && len(f) == 3:
			addr, ok2 := vfUnhexB(f[2])
			var value []byte
			ok1 := true
			if f[1] != "absent" {
				value, ok1 = vfUnhexB(f[1])
			}
			if !ok1 || !ok2 {
				io.emit("bad-op")
				continue
			}
			cert, err := ca.certWithExt(value)
			if err != nil {
				io.emit("cert-error %v", err)
				continue
			}
			parse := "absent"
			if value != nil {
				parse = vfParseExt(vfExtValue(cert))
			}
			io.emit("peer=%s parse=%s %s", vfPeerClass(string(addr)), parse, vfReaders(cert, string(addr)))
		case f[0] == "mint" && len(f) == 3:
			addr, ok := vfUnhexB(f[2])
			if !ok {
				io.emit("bad-op")
				continue
			}
			var nets []net.IPNet
			bad := false
			if f[1] != "-" {
				for i, s := range strings.Split(f[1], ",") {
					nb, ok := vfRawNet(s, i)
					if !ok {
						bad = true
						break
					}
					nets = append(nets, nb)
				}
			}
			if bad {
				io.emit("bad-op")
				continue
			}
			der, err := GenIPRestrictedX509Cert("role1", &ca.leaf.PublicKey, ca.cert, ca.key, nets, time.Hour, nil, nil)
			if err != nil {
				io.emit("peer=%s mint=err", vfPeerClass(string(addr)))
				continue
			}
			cert, err := x509.ParseCertificate(der)
			if err != nil {
				io.emit("cert-error %v", err)
				continue
			}
			if cert.Subject.CommonName != "role1" || cert.CheckSignatureFrom(ca.cert) != nil {
				io.emit("cert-error identity/signature")
				continue
			}
			value := vfExtValue(cert)
			io.emit("peer=%s mint=ok ext=%s parse=%s %s", vfPeerClass(string(addr)), vfHexB(value), vfParseExt(value), vfReaders(cert, string(addr)))
		case f[0] == "cmint" && len(f) >= 4:
			rounds, err := strconv.Atoi(f[1])
			if err != nil || rounds < 1 || rounds > 100000 {
				io.emit("bad-op")
				continue
			}
			type worker struct {
				nets []net.IPNet
				addr string
				seen []string
			}
			var ws []*worker
			bad := false
			for _, spec := range f[2:] {
				parts := strings.Split(spec, "@")
				if len(parts) != 2 {
					bad = true
					break
				}
				addr, ok := vfUnhexB(parts[1])
				if !ok {
					bad = true
					break
				}
				w := &worker{addr: string(addr)}
				if parts[0] != "-" {
					for i, s := range strings.Split(parts[0], ",") {
						nb, ok := vfRawNet(s, i)
						if !ok {
							bad = true
							break
						}
						w.nets = append(w.nets, nb)
					}
				}
				ws = append(ws, w)
			}
			if bad {
				io.emit("bad-op")
				continue
			}
			mintOnce := func(w *worker) (res string) {
				defer func() {
					if p := recover(); p != nil {
						res = "peer=" + vfPeerClass(w.addr) + " mint=PANIC"
					}
				}()
				// every worker gets its own copy of the request's list, as every HTTP request parses its own
				nets := append([]net.IPNet(nil), w.nets...)
				der, err := GenIPRestrictedX509Cert("role1", &ca.leaf.PublicKey, ca.cert, ca.key, nets, time.Hour, nil, nil)
				if err != nil {
					return fmt.Sprintf("peer=%s mint=err", vfPeerClass(w.addr))
				}
				cert, err := x509.ParseCertificate(der)
				if err != nil {
					return "cert-error parse"
				}
				if cert.Subject.CommonName != "role1" || cert.CheckSignatureFrom(ca.cert) != nil {
					return "cert-error identity/signature"
				}
				value := vfExtValue(cert)
				return fmt.Sprintf("peer=%s mint=ok ext=%s parse=%s %s", vfPeerClass(w.addr), vfHexB(value), vfParseExt(value), vfReaders(cert, w.addr))
			}
			for r := 0; r < rounds; r++ {
				start := make(chan struct{})
				var wg sync.WaitGroup
				for _, w := range ws {
					wg.Add(1)
					go func(w *worker) {
						defer wg.Done()
						<-start
						for k := 0; k < 2; k++ {
							res := mintOnce(w)
							known := false
							for _, s := range w.seen {
								known = known || s == res
							}
							if !known && len(w.seen) < 4 {
								w.seen = append(w.seen, res)
							}
						}
					}(w)
				}
				close(start)
				wg.Wait()
			}
			out := []string{fmt.Sprintf("workers=%d", len(ws))}
			for _, w := range ws {
				out = append(out, strings.Join(w.seen, " || "))
			}
			io.emit("%s", strings.Join(out, " ;; "))
		default:
			io.emit("bad-op")
		}
	}
}
