package certgen

// Verification harness for lib/certgen (injected with `go test -overlay`; never committed to /repo).
// Own small copy of the op-file plumbing of harness/keymasterd (that one is `package main`).

import (
	"bufio"
	"encoding/hex"
	"fmt"
	"io/ioutil"
	"os"
	"strings"
	"testing"
)

type vfIO struct {
	ops []string
	out *bufio.Writer
	f   *os.File
}

func vfOpen(t *testing.T) *vfIO {
	opsPath := os.Getenv("VERIF_OPS")
	outPath := os.Getenv("VERIF_OUT")
	if opsPath == "" || outPath == "" {
		t.Skip("VERIF_OPS / VERIF_OUT not set")
	}
	data, err := ioutil.ReadFile(opsPath)
	if err != nil {
		t.Fatal(err)
	}
	f, err := os.Create(outPath)
	if err != nil {
		t.Fatal(err)
	}
	lines := strings.Split(strings.TrimRight(string(data), "\n"), "\n")
	return &vfIO{ops: lines, out: bufio.NewWriterSize(f, 1<<20), f: f}
}

func (v *vfIO) emit(format string, args ...interface{}) {
	fmt.Fprintf(v.out, format+"\n", args...)
}

func (v *vfIO) close() {
	v.out.Flush()
	v.f.Close()
}

func vfHexB(b []byte) string {
	if len(b) == 0 {
		return "-"
	}
	return hex.EncodeToString(b)
}

func vfUnhexB(s string) ([]byte, bool) {
	if s == "-" || s == "_" {
		return []byte{}, true
	}
	b, err := hex.DecodeString(s)
	if err != nil {
		return nil, false
	}
	return b, true
}

func vfBool(b bool) string {
	if b {
		return "1"
	}
	return "0"
}
