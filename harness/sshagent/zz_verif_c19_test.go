package sshagent

import (
	"crypto"
	"crypto/ecdsa"
	"crypto/ed25519"
	"crypto/elliptic"
	"crypto/rand"
	"crypto/rsa"
	"fmt"
	"net"
	"sort"
	"strconv"
	"strings"
	"testing"
	"time"

	"github.com/Cloud-Foundations/golib/pkg/log/testlogger"
	"golang.org/x/crypto/ssh"
	"golang.org/x/crypto/ssh/agent"
)

// TestVerifC19 (stream `a` of the C19 driver): the real
// withAddedKeyUpsertCertIntoAgentConnection against an in-memory agent
// (golang.org/x/crypto/ssh/agent keyring served over a pipe).
//
//	a reset
//	a add <hex comment> <id> cert|plain [<kind>:<bits>]    put an entry straight into the agent
//	a upsert <hex comment> <id> [<kind>:<bits>]            the client's upsert of a fresh certificate
//	                                        kind:bits = rsa:3072, ecdsa:256|384|521, ed25519:256 (default);
//	                                        certificates of one key type share a key and differ by serial
//	a addforeign <hex comment> <id> front|back   an identity of a key algorithm golang.org/x/crypto/ssh does not
//	                                        know (PKIX-SSH x509v3-sign-rsa, ssh-xmss@openssh.com, a vendor type — what
//	                                        other agents / smart-card middleware list), listed before / after the rest
//	a install <hex comment> <id> <kind>:<bits> <fault>…    the client's installation sequence
//	                                        (cmd/keymaster insertSSHCertIntoAgentORWriteToFilesystem): an upsert with a
//	                                        lifetime and, while it fails, one more of the very same certificate without
//	                                        lifetime — one attempt per fault word, each on a new connection, against an
//	                                        agent that fails one request of that attempt: ok | list | remove<k> (the
//	                                        Remove after k successful ones) | add | life (lifetime constraints refused)
//	                                        -> ok|fail list …
//	a list                                  -> list {<hex comment>:<id>:c|p|f} sorted
func TestVerifC19(t *testing.T) {
	io := vfOpen(t)
	defer io.close()
	logger := testlogger.New(t)
	_, caPriv, _ := ed25519.GenerateKey(rand.Reader)
	caSigner, err := ssh.NewSignerFromKey(caPriv)
	if err != nil {
		t.Fatal(err)
	}
	keyring := agent.NewKeyring()
	served := &vfForeignAgent{Agent: keyring}
	blobID := map[string]string{}
	// private keys: one per key type for certificates (the blob of a certificate differs by its
	// serial), fresh ones for plain keys (RSA plain keys come from a small pool of 2048-bit keys)
	certKeys := map[string]crypto.Signer{}
	var rsaPool []crypto.Signer
	rsaNext := 0
	gen := func(kt string, pooled bool) crypto.Signer {
		if pooled {
			if k, ok := certKeys[kt]; ok {
				return k
			}
		}
		f := strings.Split(kt, ":")
		bits := 0
		if len(f) == 2 {
			bits, _ = strconv.Atoi(f[1])
		}
		var k crypto.Signer
		switch f[0] {
		case "rsa":
			if !pooled {
				// plain RSA keys: the n-th one of a scenario is the n-th key of a lazily grown pool
				rsaNext++
				if rsaNext <= len(rsaPool) {
					return rsaPool[rsaNext-1]
				}
				bits = 2048
			}
			rk, err := rsa.GenerateKey(rand.Reader, bits)
			if err != nil {
				t.Fatal(err)
			}
			k = rk
			if !pooled {
				rsaPool = append(rsaPool, k)
			}
		case "ecdsa":
			curve := map[int]elliptic.Curve{256: elliptic.P256(), 384: elliptic.P384(), 521: elliptic.P521()}[bits]
			if curve == nil {
				t.Fatalf("unsupported curve %d", bits)
			}
			ek, err := ecdsa.GenerateKey(curve, rand.Reader)
			if err != nil {
				t.Fatal(err)
			}
			k = ek
		default:
			_, ek, _ := ed25519.GenerateKey(rand.Reader)
			k = ek
		}
		if pooled {
			certKeys[kt] = k
		}
		return k
	}
	mk := func(id string, withCert bool, comment string, kt string) agent.AddedKey {
		priv := gen(kt, withCert)
		sshPub, err := ssh.NewPublicKey(priv.Public())
		if err != nil {
			t.Fatal(err)
		}
		k := agent.AddedKey{PrivateKey: priv, Comment: comment}
		if withCert {
			n, _ := strconv.Atoi(id)
			cert := &ssh.Certificate{Key: sshPub, CertType: ssh.UserCert, KeyId: "id" + id, Serial: uint64(n),
				ValidPrincipals: []string{"username"}, ValidAfter: uint64(time.Now().Unix() - 60),
				ValidBefore: uint64(time.Now().Unix() + 3600)}
			if err := cert.SignCert(rand.Reader, caSigner); err != nil {
				t.Fatal(err)
			}
			k.Certificate = cert
			blobID[string(cert.Marshal())] = id
			vfBlobSeq[string(cert.Marshal())] = len(vfBlobSeq)
		} else {
			blobID[string(sshPub.Marshal())] = id
			if _, ok := vfBlobSeq[string(sshPub.Marshal())]; !ok {
				vfBlobSeq[string(sshPub.Marshal())] = len(vfBlobSeq)
			}
		}
		return k
	}
	list := func() string {
		keys, err := served.List()
		if err != nil {
			return "list-error"
		}
		var l []string
		for _, k := range keys {
			kind := "p"
			if strings.Contains(k.Format, "-cert-") {
				kind = "c"
			}
			if served.isForeign(k.Blob) {
				kind = "f"
			}
			id, ok := blobID[string(k.Blob)]
			if !ok {
				id = "?"
			}
			l = append(l, fmt.Sprintf("%s:%s:%s", vfHex(k.Comment), id, kind))
		}
		sort.Strings(l)
		return strings.TrimSpace("list " + strings.Join(l, " "))
	}
	for _, line := range io.ops {
		f := strings.Fields(line)
		if len(f) < 2 || f[0] != "a" {
			io.emit("bad-op")
			continue
		}
		f = f[1:]
		switch {
		case f[0] == "reset" && len(f) == 1:
			keyring = agent.NewKeyring()
			served = &vfForeignAgent{Agent: keyring}
			blobID = map[string]string{}
			rsaNext = 0
			io.emit("reset")
		case f[0] == "add" && (len(f) == 4 || len(f) == 5) && (f[3] == "cert" || f[3] == "plain"):
			kt := "ed25519:256"
			if len(f) == 5 {
				kt = f[4]
			}
			comment, ok := vfUnhex(f[1])
			if !ok {
				io.emit("bad-op")
				continue
			}
			if err := keyring.Add(mk(f[2], f[3] == "cert", comment, kt)); err != nil {
				io.emit("error")
				continue
			}
			io.emit("%s", list())
		case f[0] == "upsert" && (len(f) == 3 || len(f) == 4):
			kt := "ed25519:256"
			if len(f) == 4 {
				kt = f[3]
			}
			comment, ok := vfUnhex(f[1])
			if !ok {
				io.emit("bad-op")
				continue
			}
			client, server := net.Pipe()
			go agent.ServeAgent(served, server)
			err := withAddedKeyUpsertCertIntoAgentConnection(mk(f[2], true, comment, kt), client, logger)
			client.Close()
			if err != nil {
				io.emit("error %s", vfHex(err.Error()))
				continue
			}
			io.emit("%s", list())
		case f[0] == "install" && len(f) >= 5:
			comment, ok := vfUnhex(f[1])
			if !ok {
				io.emit("bad-op")
				continue
			}
			var plans []*vfFlakyAgent
			for _, w := range f[4:] {
				p := &vfFlakyAgent{inner: served, failRemoveAt: -1}
				switch {
				case w == "ok":
				case w == "list":
					p.failList = true
				case w == "add":
					p.failAdd = true
				case w == "life":
					p.refuseLifetime = true
				case strings.HasPrefix(w, "remove"):
					n, err := strconv.Atoi(w[6:])
					if err != nil || n < 0 {
						p = nil
					} else {
						p.failRemoveAt = n
					}
				default:
					p = nil
				}
				if p == nil {
					plans = nil
					break
				}
				plans = append(plans, p)
			}
			if plans == nil {
				io.emit("bad-op")
				continue
			}
			key := mk(f[2], true, comment, f[3])
			key.LifetimeSecs = 3600
			result := "fail"
			for i, p := range plans {
				if i > 0 {
					key.LifetimeSecs = 0 // the client's retry: the same certificate, no lifetime
				}
				client, server := net.Pipe()
				go agent.ServeAgent(p, server)
				err := withAddedKeyUpsertCertIntoAgentConnection(key, client, logger)
				client.Close()
				if err == nil {
					result = "ok"
					break
				}
			}
			io.emit("%s %s", result, list())
		case f[0] == "addforeign" && len(f) == 4 && (f[3] == "front" || f[3] == "back"):
			comment, ok := vfUnhex(f[1])
			if !ok {
				io.emit("bad-op")
				continue
			}
			formats := []string{"x509v3-sign-rsa", "ssh-xmss@openssh.com", "acme-smartcard-v1@example.com"}
			n, _ := strconv.Atoi(f[2])
			format := formats[n%len(formats)]
			junk := make([]byte, 40)
			rand.Read(junk)
			blob := ssh.Marshal(struct {
				Format string
				Rest   []byte
			}{format, append(junk, []byte(f[2])...)})
			k := &agent.Key{Format: format, Blob: blob, Comment: comment}
			blobID[string(blob)] = f[2]
			if f[3] == "front" {
				served.front = append(served.front, k)
			} else {
				served.back = append(served.back, k)
			}
			io.emit("%s", list())
		case f[0] == "list" && len(f) == 1:
			io.emit("%s", list())
		default:
			io.emit("bad-op")
		}
	}
}

// vfForeignAgent is the in-memory keyring plus identities it could never hold itself: keys of
// algorithms unknown to golang.org/x/crypto/ssh, as a real ssh-agent (or gpg-agent, smart-card
// middleware) may list them. They come before (`front`) or after (`back`) the keyring's own.
var vfBlobSeq = map[string]int{}

type vfForeignAgent struct {
	agent.Agent
	front, back []*agent.Key
}

func (a *vfForeignAgent) List() ([]*agent.Key, error) {
	keys, err := a.Agent.List()
	if err != nil {
		return nil, err
	}
	// identities in the order they were added, as OpenSSH's ssh-agent lists them (the in-memory keyring
	// moves its last key into the place of a removed one)
	sort.SliceStable(keys, func(i, j int) bool { return vfBlobSeq[string(keys[i].Blob)] < vfBlobSeq[string(keys[j].Blob)] })
	out := append([]*agent.Key(nil), a.front...)
	out = append(out, keys...)
	return append(out, a.back...), nil
}

func (a *vfForeignAgent) isForeign(blob []byte) bool {
	for _, k := range append(append([]*agent.Key(nil), a.front...), a.back...) {
		if string(k.Blob) == string(blob) {
			return true
		}
	}
	return false
}

func (a *vfForeignAgent) Remove(key ssh.PublicKey) error {
	want := string(key.Marshal())
	drop := func(l []*agent.Key) ([]*agent.Key, bool) {
		for i, k := range l {
			if string(k.Blob) == want {
				return append(append([]*agent.Key(nil), l[:i]...), l[i+1:]...), true
			}
		}
		return l, false
	}
	var ok bool
	if a.front, ok = drop(a.front); ok {
		return nil
	}
	if a.back, ok = drop(a.back); ok {
		return nil
	}
	return a.Agent.Remove(key)
}

// vfFlakyAgent is the agent of one attempt: it forwards to the scenario's agent but fails one
// request, as a restarting, busy or forwarded agent does (or refuses lifetime constraints, as the
// Windows OpenSSH agent did).
type vfAgentIface = agent.Agent

type vfFlakyAgent struct {
	inner          vfAgentIface
	failList       bool
	failRemoveAt   int // the Remove request after this many successful ones fails; -1: none
	failAdd        bool
	refuseLifetime bool
	removes        int
}

var errVfTransient = fmt.Errorf("transient agent failure")

func (a *vfFlakyAgent) List() ([]*agent.Key, error) {
	if a.failList {
		return nil, errVfTransient
	}
	return a.inner.List()
}

func (a *vfFlakyAgent) Remove(key ssh.PublicKey) error {
	if a.removes == a.failRemoveAt {
		a.failRemoveAt = -1
		return errVfTransient
	}
	a.removes++
	return a.inner.Remove(key)
}

func (a *vfFlakyAgent) Add(key agent.AddedKey) error {
	if a.failAdd || (a.refuseLifetime && key.LifetimeSecs != 0) {
		return errVfTransient
	}
	return a.inner.Add(key)
}

func (a *vfFlakyAgent) Sign(key ssh.PublicKey, data []byte) (*ssh.Signature, error) {
	return a.inner.Sign(key, data)
}
func (a *vfFlakyAgent) RemoveAll() error               { return a.inner.RemoveAll() }
func (a *vfFlakyAgent) Lock(p []byte) error            { return a.inner.Lock(p) }
func (a *vfFlakyAgent) Unlock(p []byte) error          { return a.inner.Unlock(p) }
func (a *vfFlakyAgent) Signers() ([]ssh.Signer, error) { return a.inner.Signers() }
