package sshagent

import (
	"crypto/ed25519"
	"crypto/rand"
	"fmt"
	"net"
	"sort"
	"strconv"
	"strings"
	"testing"
	"time"

	"github.com/Cloud-Foundations/golib/pkg/log/testlogger"
	"golang.org/x/crypto/ssh"
	"golang.org/x/crypto/ssh/agent"
)

// TestVerifC19 (stream `a` of the C19 driver): the real
// withAddedKeyUpsertCertIntoAgentConnection against an in-memory agent
// (golang.org/x/crypto/ssh/agent keyring served over a pipe).
//
//	a reset
//	a add <hex comment> <id> cert|plain     put an entry straight into the agent
//	a upsert <hex comment> <id>             the client's upsert of a fresh certificate
//	a list                                  -> list {<hex comment>:<id>:c|p} sorted
func TestVerifC19(t *testing.T) {
	io := vfOpen(t)
	defer io.close()
	logger := testlogger.New(t)
	_, caPriv, _ := ed25519.GenerateKey(rand.Reader)
	caSigner, err := ssh.NewSignerFromKey(caPriv)
	if err != nil {
		t.Fatal(err)
	}
	keyring := agent.NewKeyring()
	blobID := map[string]string{}
	mk := func(id string, withCert bool, comment string) agent.AddedKey {
		pub, priv, _ := ed25519.GenerateKey(rand.Reader)
		sshPub, _ := ssh.NewPublicKey(pub)
		k := agent.AddedKey{PrivateKey: priv, Comment: comment}
		if withCert {
			n, _ := strconv.Atoi(id)
			cert := &ssh.Certificate{Key: sshPub, CertType: ssh.UserCert, KeyId: "id" + id, Serial: uint64(n),
				ValidPrincipals: []string{"username"}, ValidAfter: uint64(time.Now().Unix() - 60),
				ValidBefore: uint64(time.Now().Unix() + 3600)}
			if err := cert.SignCert(rand.Reader, caSigner); err != nil {
				t.Fatal(err)
			}
			k.Certificate = cert
			blobID[string(cert.Marshal())] = id
		} else {
			blobID[string(sshPub.Marshal())] = id
		}
		return k
	}
	list := func() string {
		keys, err := keyring.List()
		if err != nil {
			return "list-error"
		}
		var l []string
		for _, k := range keys {
			kind := "p"
			if strings.Contains(k.Format, "-cert-") {
				kind = "c"
			}
			id, ok := blobID[string(k.Blob)]
			if !ok {
				id = "?"
			}
			l = append(l, fmt.Sprintf("%s:%s:%s", vfHex(k.Comment), id, kind))
		}
		sort.Strings(l)
		return strings.TrimSpace("list " + strings.Join(l, " "))
	}
	for _, line := range io.ops {
		f := strings.Fields(line)
		if len(f) < 2 || f[0] != "a" {
			io.emit("bad-op")
			continue
		}
		f = f[1:]
		switch {
		case f[0] == "reset" && len(f) == 1:
			keyring = agent.NewKeyring()
			blobID = map[string]string{}
			io.emit("reset")
		case f[0] == "add" && len(f) == 4 && (f[3] == "cert" || f[3] == "plain"):
			comment, ok := vfUnhex(f[1])
			if !ok {
				io.emit("bad-op")
				continue
			}
			if err := keyring.Add(mk(f[2], f[3] == "cert", comment)); err != nil {
				io.emit("error")
				continue
			}
			io.emit("%s", list())
		case f[0] == "upsert" && len(f) == 3:
			comment, ok := vfUnhex(f[1])
			if !ok {
				io.emit("bad-op")
				continue
			}
			client, server := net.Pipe()
			go agent.ServeAgent(keyring, server)
			err := withAddedKeyUpsertCertIntoAgentConnection(mk(f[2], true, comment), client, logger)
			client.Close()
			if err != nil {
				io.emit("error %s", vfHex(err.Error()))
				continue
			}
			io.emit("%s", list())
		case f[0] == "list" && len(f) == 1:
			io.emit("%s", list())
		default:
			io.emit("bad-op")
		}
	}
}
