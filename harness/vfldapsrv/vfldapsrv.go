// Package vfldapsrv is verification-harness code (injected with `go test -overlay`; it never
// exists in /repo): a small cluster of in-process LDAPS servers over one ground-truth directory.
// Every server can be up, unreachable, hanging, or answer binds with a chosen non-credential
// result code. A fresh self-signed CA and server certificate are generated per process, so nothing
// depends on the expired certificates embedded in the repository's own test fixtures.
// The cluster records which binds the directory really answered, and how: that record — not the
// code under test — is the ground truth the property is judged against.
package vfldapsrv

import (
	"crypto/ecdsa"
	"crypto/elliptic"
	"crypto/rand"
	"crypto/tls"
	"crypto/x509"
	"crypto/x509/pkix"
	"fmt"
	"math/big"
	"net"
	"strconv"
	"strings"
	"sync"
	"time"

	"github.com/vjeantet/ldapserver"
)

// BindPattern is the bind DN pattern to configure in the authenticator under test.
const BindPattern = "uid=%s,ou=people,dc=example,dc=com"

// ClientTimeoutSecs is the per-server timeout the harnesses configure the real LDAP authenticator with: the most
// that lib/pwauth/ldap's own cap (timeout x servers <= 7 s) leaves untouched for the two servers of a Cluster. With 1 s
// a TLS dial + bind against an "up" in-process server occasionally timed out on a loaded machine and the authenticator
// moved on to the next server ("1+" where the model, for which an up server answers, says "0+").
const ClientTimeoutSecs = 3

// Patterns maps pattern kinds to bind patterns: "e" names the user's entry, "n" is a well-formed DN
// under a branch that holds no entries (the directory answers invalidCredentials whatever the
// password), "m" is a userPrincipalName-style name the directory answers with invalidDNSyntax.
func Patterns(kinds []string) ([]string, bool) {
	var out []string
	for _, k := range kinds {
		switch k {
		case "e":
			out = append(out, BindPattern)
		case "n":
			out = append(out, "uid=%s,ou=service,dc=example,dc=com")
		case "m":
			out = append(out, "%s@corp.example.com")
		default:
			return nil, false
		}
	}
	return out, true
}

type Cluster struct {
	mu      sync.Mutex
	pw      map[string]string // lower-case uid -> current password
	anon    bool              // answer success to unauthenticated (empty password) binds
	acct    map[string]string // lower-case uid -> Active Directory account-state sub-code ("" = usable)
	diag    string            // plain | ad | noisy: diagnostic message of invalidCredentials refusals
	nth     int
	status  []string // up | down | hang | err<code>
	urls    []string
	trace   []string
	hung    []net.Conn
	RootCAs *x509.CertPool
}

type gateListener struct {
	net.Listener
	c *Cluster
	i int
}

// Accept hands connections to the TLS layer only while the server is not "down"/"hang".
func (g *gateListener) Accept() (net.Conn, error) {
	for {
		conn, err := g.Listener.Accept()
		if err != nil {
			return conn, err
		}
		g.c.mu.Lock()
		st := g.c.status[g.i]
		if st == "hang" {
			g.c.hung = append(g.c.hung, conn)
		}
		g.c.mu.Unlock()
		switch st {
		case "down":
			conn.Close()
		case "hang":
		default:
			return conn, nil
		}
	}
}

func newCerts() (*x509.CertPool, tls.Certificate, error) {
	caKey, err := ecdsa.GenerateKey(elliptic.P256(), rand.Reader)
	if err != nil {
		return nil, tls.Certificate{}, err
	}
	now := time.Now()
	caTmpl := &x509.Certificate{SerialNumber: big.NewInt(1), Subject: pkix.Name{CommonName: "verif harness CA"},
		NotBefore: now.Add(-time.Hour), NotAfter: now.Add(48 * time.Hour), IsCA: true, BasicConstraintsValid: true,
		KeyUsage: x509.KeyUsageCertSign | x509.KeyUsageDigitalSignature}
	caDer, err := x509.CreateCertificate(rand.Reader, caTmpl, caTmpl, &caKey.PublicKey, caKey)
	if err != nil {
		return nil, tls.Certificate{}, err
	}
	caCert, err := x509.ParseCertificate(caDer)
	if err != nil {
		return nil, tls.Certificate{}, err
	}
	srvKey, err := ecdsa.GenerateKey(elliptic.P256(), rand.Reader)
	if err != nil {
		return nil, tls.Certificate{}, err
	}
	srvTmpl := &x509.Certificate{SerialNumber: big.NewInt(2), Subject: pkix.Name{CommonName: "localhost"},
		NotBefore: now.Add(-time.Hour), NotAfter: now.Add(48 * time.Hour), DNSNames: []string{"localhost"},
		IPAddresses: []net.IP{net.ParseIP("127.0.0.1")}, KeyUsage: x509.KeyUsageDigitalSignature,
		ExtKeyUsage: []x509.ExtKeyUsage{x509.ExtKeyUsageServerAuth}}
	srvDer, err := x509.CreateCertificate(rand.Reader, srvTmpl, caCert, &srvKey.PublicKey, caKey)
	if err != nil {
		return nil, tls.Certificate{}, err
	}
	pool := x509.NewCertPool()
	pool.AddCert(caCert)
	return pool, tls.Certificate{Certificate: [][]byte{srvDer}, PrivateKey: srvKey}, nil
}

// Start launches n servers on free loopback ports.
func Start(n int) (*Cluster, error) {
	ldapserver.Logger = ldapserver.DiscardingLogger
	pool, cert, err := newCerts()
	if err != nil {
		return nil, err
	}
	c := &Cluster{pw: map[string]string{}, acct: map[string]string{}, diag: "plain", RootCAs: pool}
	for i := 0; i < n; i++ {
		i := i
		c.status = append(c.status, "up")
		ln, err := net.Listen("tcp", "127.0.0.1:0")
		if err != nil {
			return nil, err
		}
		c.urls = append(c.urls, fmt.Sprintf("ldaps://localhost:%d", ln.Addr().(*net.TCPAddr).Port))
		srv := ldapserver.NewServer()
		routes := ldapserver.NewRouteMux()
		routes.Bind(func(w ldapserver.ResponseWriter, m *ldapserver.Message) { c.handleBind(i, w, m) })
		srv.Handle(routes)
		srv.Listener = tls.NewListener(&gateListener{Listener: ln, c: c, i: i},
			&tls.Config{Certificates: []tls.Certificate{cert}, MinVersion: tls.VersionTLS12})
		go serve(srv)
	}
	return c, nil
}

// serve is ldapserver's accept loop for a listener we made ourselves (ListenAndServe insists on
// opening its own).
func serve(s *ldapserver.Server) {
	// ListenAndServe(addr, options...) opens a listener and then lets options replace it.
	keep := s.Listener
	s.ListenAndServe("127.0.0.1:0", func(x *ldapserver.Server) {
		x.Listener.Close()
		x.Listener = keep
	})
}

func uidOf(dn string) string {
	l := strings.ToLower(strings.TrimSpace(dn))
	if !strings.HasPrefix(l, "uid=") {
		return ""
	}
	l = l[4:]
	if i := strings.IndexByte(l, ','); i >= 0 {
		l = l[:i]
	}
	return strings.TrimSpace(l)
}

func (c *Cluster) handleBind(i int, w ldapserver.ResponseWriter, m *ldapserver.Message) {
	r := m.GetBindRequest()
	res := ldapserver.NewBindResponse(ldapserver.LDAPResultSuccess)
	uid := uidOf(string(r.Name()))
	pass := string(r.AuthenticationSimple())
	c.mu.Lock()
	st := c.status[i]
	want, known := c.pw[uid]
	name := strings.ToLower(string(r.Name()))
	if !strings.Contains(name, ",ou=people,") {
		known = false // only ou=people holds entries
	}
	anon := c.anon
	mark := ""
	switch {
	case strings.HasPrefix(st, "err"):
		code, _ := strconv.Atoi(st[3:])
		if code == 0 {
			code = ldapserver.LDAPResultBusy
		}
		res.SetResultCode(code)
		res.SetDiagnosticMessage("verif: server cannot process the bind right now")
		mark = "e"
	case !strings.Contains(name, "="):
		// like OpenLDAP answers a userPrincipalName-style bind name: an error, not a verdict
		res.SetResultCode(ldapserver.LDAPResultInvalidDNSyntax)
		res.SetDiagnosticMessage("invalid DN")
		mark = "e"
	case pass == "":
		// RFC 4513 5.1.2: unauthenticated bind. Either "success" (Active Directory default) or
		// unwillingToPerform. It authenticates nobody.
		if anon {
			mark = "+"
		} else {
			res.SetResultCode(ldapserver.LDAPResultUnwillingToPerform)
			res.SetDiagnosticMessage("unauthenticated bind (DN with no password) disallowed")
			mark = "e"
		}
	case known && pass == want && c.acct[uid] == "":
		mark = "+"
	default:
		// invalidCredentials: the directory's refusal, whatever it chooses to say about the reason
		sub := "52e" // wrong password
		switch {
		case !known:
			sub = "525" // no such user
		case pass == want:
			sub = c.acct[uid] // right password, account not usable
		}
		res.SetResultCode(ldapserver.LDAPResultInvalidCredentials)
		res.SetDiagnosticMessage(c.diagnostic(sub))
		mark = "-"
	}
	c.trace = append(c.trace, strconv.Itoa(i)+mark)
	c.mu.Unlock()
	w.Write(res)
}

var noisyDiagnostics = []string{
	"account locked; server busy, connection timed out, try again later",
	"Unwilling To Perform: directory unavailable (Busy)",
	"error: referral to ldaps://other.example.com; Operations Error",
	"password expired! contact the help desk. network error 0x51",
	"AcceptSecurityContext error, data 52e, v3839",
}

// diagnostic: what the directory writes next to an invalidCredentials result (caller holds c.mu).
func (c *Cluster) diagnostic(sub string) string {
	switch c.diag {
	case "ad":
		return "80090308: LdapErr: DSID-0C090447, comment: AcceptSecurityContext error, data " + sub + ", v3839"
	case "noisy":
		c.nth++
		return noisyDiagnostics[c.nth%len(noisyDiagnostics)]
	}
	return ""
}

// SetAccount: code "" / "ok" = usable, otherwise the account-state sub-code its refusals carry.
func (c *Cluster) SetAccount(uid, code string) {
	c.mu.Lock()
	defer c.mu.Unlock()
	if code == "ok" {
		code = ""
	}
	c.acct[strings.ToLower(uid)] = code
}

// SetDiag: plain | ad | noisy
func (c *Cluster) SetDiag(style string) bool {
	if style != "plain" && style != "ad" && style != "noisy" {
		return false
	}
	c.mu.Lock()
	c.diag = style
	c.mu.Unlock()
	return true
}

func (c *Cluster) URLs() []string { return append([]string(nil), c.urls...) }

// SetStatus: up | down | hang | err<code>
func (c *Cluster) SetStatus(i int, st string) bool {
	c.mu.Lock()
	defer c.mu.Unlock()
	if i < 0 || i >= len(c.status) {
		return false
	}
	if st != "up" && st != "down" && st != "hang" {
		if !strings.HasPrefix(st, "err") {
			return false
		}
		if n, err := strconv.Atoi(st[3:]); err != nil || n == 0 || n == 49 {
			return false
		}
	}
	c.status[i] = st
	if st != "hang" {
		for _, h := range c.hung {
			h.Close()
		}
		c.hung = nil
	}
	return true
}

// SetPassword sets (or with ok=false removes) a user's directory password.
func (c *Cluster) SetPassword(uid, pw string, ok bool) {
	c.mu.Lock()
	defer c.mu.Unlock()
	if ok {
		c.pw[strings.ToLower(uid)] = pw
	} else {
		delete(c.pw, strings.ToLower(uid))
	}
}

func (c *Cluster) SetAnon(b bool) {
	c.mu.Lock()
	c.anon = b
	c.mu.Unlock()
}

// Reset: all servers up, directory emptied, trace cleared.
func (c *Cluster) Reset() {
	c.mu.Lock()
	for i := range c.status {
		c.status[i] = "up"
	}
	for _, h := range c.hung {
		h.Close()
	}
	c.hung = nil
	c.pw = map[string]string{}
	c.acct = map[string]string{}
	c.diag = "plain"
	c.anon = false
	c.trace = nil
	c.mu.Unlock()
}

// TakeTrace returns what the directory answered since the last call ("-" when nothing).
func (c *Cluster) TakeTrace() string {
	c.mu.Lock()
	defer c.mu.Unlock()
	t := strings.Join(c.trace, "")
	c.trace = nil
	if t == "" {
		return "-"
	}
	return t
}
