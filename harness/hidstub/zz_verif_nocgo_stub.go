//go:build !cgo

package hid

// Verification sandbox stub (injected with `go test -overlay` into github.com/flynn/hid when the
// client packages are compiled with CGO_ENABLED=0 because libudev is not installed here): no HID
// devices exist. Only the two symbols of hid_linux.go (a cgo file) that u2fhid needs.

import "errors"

func Devices() ([]*DeviceInfo, error) { return nil, nil }

func (d *DeviceInfo) Open() (Device, error) {
	return nil, errors.New("no HID access in the verification sandbox")
}
