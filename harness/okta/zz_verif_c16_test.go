package okta

// C16 at the library: the Okta authenticator's cache of recent password authentications is shared by every
// okta2FAAuth / oktaPushStart / oktaPollCheck request. Run under the race detector.

import (
	"fmt"
	"net/http"
	"net/http/httptest"
	"strings"
	"sync"
	"testing"
	"time"

	"github.com/Cloud-Foundations/golib/pkg/log/testlogger"
)

// TestVerifC16Okta: `okta <users> <rounds>` ↦ `done <lookups>`: sessions that have just expired are looked up (and
// thereby removed) by several requests per user at once, while other users log in and are looked up.
func TestVerifC16Okta(t *testing.T) {
	vio := vfOpen(t)
	defer vio.close()
	srv := httptest.NewServer(http.HandlerFunc(func(w http.ResponseWriter, r *http.Request) {
		w.Header().Set("Content-Type", "application/json")
		fmt.Fprint(w, `{"stateToken":"tok","status":"MFA_REQUIRED","expiresAt":"2999-01-01T00:00:00.000Z","_embedded":{"factors":[]}}`)
	}))
	defer srv.Close()
	for _, line := range vio.ops {
		var users, rounds int
		if _, err := fmt.Sscanf(strings.TrimSpace(line), "okta %d %d", &users, &rounds); err != nil {
			vio.emit("bad-op")
			continue
		}
		pa, err := NewPublicTesting(srv.URL, testlogger.New(t))
		if err != nil {
			t.Fatal(err)
		}
		lookups := 0
		var cmu sync.Mutex
		for r := 0; r < rounds; r++ {
			// every user has a cached session that expired a moment ago
			pa.mutex.Lock()
			for u := 0; u < users; u++ {
				pa.recentAuth[fmt.Sprintf("user%d", u)] = authCacheData{expires: time.Now().Add(-time.Second)}
			}
			pa.mutex.Unlock()
			var wg sync.WaitGroup
			start := make(chan struct{})
			for u := 0; u < users; u++ {
				name := fmt.Sprintf("user%d", u)
				for tab := 0; tab < 3; tab++ {
					wg.Add(1)
					go func() {
						defer wg.Done()
						<-start
						pa.GetValidUserResponse(name)
						cmu.Lock()
						lookups++
						cmu.Unlock()
					}()
				}
				wg.Add(1)
				go func() { // somebody else logs in meanwhile
					defer wg.Done()
					<-start
					pa.PasswordAuthenticate("other-"+name, []byte("pw"))
					pa.GetValidUserResponse("other-" + name)
				}()
			}
			close(start)
			wg.Wait()
		}
		vio.emit("done %d", lookups)
	}
}
