package okta

// Verification harness (injected with `go test -overlay`; never committed to /repo).
// Package-local copy of the op-file plumbing of harness/keymasterd/zz_verif_common_test.go.

import (
	"bufio"
	"encoding/hex"
	"fmt"
	"os"
	"strings"
	"testing"
)

type vfIO struct {
	ops []string
	out *bufio.Writer
	f   *os.File
}

// vfOpen reads $VERIF_OPS (one op per line) and opens $VERIF_OUT for writing.
func vfOpen(t *testing.T) *vfIO {
	opsPath := os.Getenv("VERIF_OPS")
	outPath := os.Getenv("VERIF_OUT")
	if opsPath == "" || outPath == "" {
		t.Skip("VERIF_OPS / VERIF_OUT not set")
	}
	data, err := os.ReadFile(opsPath)
	if err != nil {
		t.Fatal(err)
	}
	f, err := os.Create(outPath)
	if err != nil {
		t.Fatal(err)
	}
	lines := strings.Split(strings.TrimRight(string(data), "\n"), "\n")
	return &vfIO{ops: lines, out: bufio.NewWriter(f), f: f}
}

func (v *vfIO) emit(format string, args ...interface{}) {
	fmt.Fprintf(v.out, format+"\n", args...)
	v.out.Flush()
}

func (v *vfIO) close() {
	v.out.Flush()
	v.f.Close()
}

func vfHex(s string) string {
	if s == "" {
		return "-"
	}
	return hex.EncodeToString([]byte(s))
}

func vfUnhex(s string) (string, bool) {
	if s == "-" {
		return "", true
	}
	b, err := hex.DecodeString(s)
	if err != nil {
		return "", false
	}
	return string(b), true
}

func vfBool(b bool) string {
	if b {
		return "1"
	}
	return "0"
}
